"""C15 - module constants are exported with the WGSL type and exact value."""
from common import coq_options
import sink
import obs

ID = "C15"
ENV_RERUN = 40          # cases repeated from a cargo build-script environment (lib/runner.py with_build_env)
TABLES = ["scalar"]      # leaf tables compared exhaustively through the hooks (coq/Check/Tables.v)
REQUIRES = ["ObsCheck", "Agree", "C15Spec", "Truth", "IntLit"]
THEOREM_REQUIRES = ["C15"]
THEOREMS = ["C15_holds_bool", "C15_literal_tokens_roundtrip", "C15_tokens_read_back"]
PROOF_FILES = ["Proofs/GenInv.v", "Proofs/Tactics.v", "Proofs/C15Proof.v", "Proofs/IntLitProof.v", "Properties/C15.v"]
RULE = ("kitchen-sink shaders with 0..10 constant declarations drawn from: explicit/inferred i32,u32,f32,bool, f64 (lf), "
        "i64/u64 (li/lu), constant expressions, references to other constants, extremes (i32::MIN, u32::MAX, f32 max / "
        "min normal / subnormal, -0.0), non-scalar constants (vector, array); ground truth (type, exact value / bit "
        "pattern) computed in Python and compared with the real output; non-trivial = >= 2 scalar constants; "
        "distinct = distinct IR dumps")
ASSUMPTIONS = ["the driver parses FLOAT literal tokens back with Rust's str::parse (f32/f64 round trip of Rust's shortest "
               "repr printing); rustc's lexing of the same token is validated in the compiled batch (to_bits)",
               "integer / boolean tokens: Spec/IntLit.v models rustc's reading of them (decimal digits + suffix, "
               "overflowing_literals, unary minus); C15_tokens_read_back proves the printed tokens read back as the WGSL "
               "value; premise consts_in_range (naga's literals are values of their own Rust type) is evaluated on every "
               "case, and per compiled module Coq compares eval_const_tokens of the real output's tokens with the value "
               "and type rustc reports (obs_consts_read_back)"]


def cases(rng, tier):
    n = {"quick": 400, "search": 800, "thorough": 3000}[tier]
    out = []
    # one include path regenerated after edits that keep the file's length (the typical edit of a constant's value):
    # the exported values are those of the source given with THIS call
    for a_, b_ in ((12, 0.25), (34, 1.75), (56, 0.50), (12, 0.25), (78, 9.00)):
        w = "const LIMIT: u32 = %du;\nconst GAIN: f32 = %.2f;\n@fragment fn fs_main() {}\n" % (a_, b_)
        out.append({"wgsl": w, "family": "same_path_same_length", "opts": {}, "include": "shaders/consts.wgsl",
                    "truth": [("LIMIT", "PU32", "(LU32 %d%%N)" % a_), ("GAIN", "PF32", "(LF32 %d%%N)" % sink.f32_bits(b_))]})
    for i in range(n):
        s = sink.sink(rng, n_consts=rng.randint(1, 10), n_overrides=0)
        out.append({"wgsl": s["wgsl"], "family": "consts", "opts": {"rustfmt": i % 10 == 0}, "truth": s["consts"]})
    return out


def run_cases(plain, cases_, workdir, tag):
    return obs.attach(plain, cases_, workdir, tag, lambda c: True, 40 if "search" not in tag else 0)


PRIM_OF = {"i32": "PI32", "u32": "PU32", "f32": "PF32", "f64": "PF64", "i64": "PI64", "u64": "PU64", "bool": "PBool",
           "i8": "PI8", "u8": "PU8", "i16": "PI16", "u16": "PU16"}


def coq_obs_clause(r, real):
    """Coq-evaluated: the constants the compiled module exports (declared type, evaluated value / bit pattern) = the
    constants of the extracted output"""
    items = []
    for name, c_ in sorted((r["obs"].get("consts") or {}).items()):
        pt = PRIM_OF.get(c_.get("type_name"))
        if pt is None:
            return "false"
        items.append('(%s, %s, (%d)%%Z)' % (sink._cs(name), pt, int(str(c_.get("bits")).strip())))
    return "obs_consts_ok %s [%s] && obs_consts_read_back %s [%s]" % (real, "; ".join(items), real, "; ".join(items))


def verdict_expr(c, r, ir, real):
    ob = "true"
    if "obs" in r and r.get("result") == "ok":
        ok, why = obs.check_c15(c["truth"], r) if obs.usable(r) else (False, "module did not build / run on the shim: %s" % str(r.get("obs"))[:300])
        c["note"] = why
        ob = "true" if ok else "false"
        if obs.usable(r):
            ob += " && " + coq_obs_clause(r, real)
    return _verdict(c, r, ir, real).replace("OBS", ob)


def _verdict(c, r, ir, real):
    t = sink.coq_consts_truth(c["truth"])
    return ('[wf_consts %s && consts_in_range %s; agree_res agree_C15 (gen %s ""%%string None %s) %s; '
            'on_ok %s (fun o => C15_ok %s o && truth_consts_ok o %s) && OBS]'
            % (ir, ir, ir, coq_options(c["opts"]), real, real, ir, t))


def verdict_expr_noout(c, r, ir):
    # the returned text does not match the templates any more: decide (b) by what the compiled module does
    ob = "true"
    if "obs" in r and r.get("result") == "ok":
        ok, why = obs.check_c15(c["truth"], r) if obs.usable(r) else (False, "module did not build / run on the shim: %s" % str(r.get("obs"))[:300])
        c["note"] = "extraction failed (%s); behaviour: %s" % (r.get("extract_err"), why)
        ob = "true" if ok else "false"
    return "[true; false; %s]" % ob


def nontrivial(c, r):
    return len(c["truth"]) >= 2 and r.get("result") == "ok"
