"""C09 - struct property (see DESIGN.md §5 C09); cases shared with the other struct properties."""
from common import coq_options
import structcases

ID = "C09"
REQUIRES = ["Agree", "StructSpec", "Truth"]
THEOREM_REQUIRES = ["C09"]
THEOREMS = ["C09_holds_bool", "C09_non_interference", "C09_fields_only_mv"]
PROOF_FILES = ["Proofs/GenInv.v", "Proofs/TypeDfs.v", "Proofs/StructProof.v", "Properties/C09.v"]
RULE = ("random type DAGs: host structs (scalars, vec2-4 of f32/i32/u32, all 9 matrix shapes, atomics, fixed arrays incl. "
        "arrays of structs, nesting <= 3, shared members, optional trailing runtime-sized array) used by globals in "
        "uniform / storage / private / workgroup space directly or through arrays, unused and function-local structs, "
        "vertex input structs, an inter-stage struct (vertex result = fragment parameter), fragment output structs, a "
        "struct that is both host-shareable and a vertex input; x option sets (3 per program in the quick tier, all 48 "
        "in the thorough tier); ground truth from the generator's description (emitted set, roles, WGSL layout by an "
        "independent Python implementation of the WGSL rules) compared with the real output; non-trivial = >= 2 "
        "emitted structs; distinct = distinct (IR dump, options)")
ASSUMPTIONS = ["naga's member offsets / spans / strides are the WGSL layout: checked per case against the independent "
               "Python implementation of the WGSL alignment rules through the ground-truth comparison"]
TRUSTED_EXTRA = ["Python implementation of the WGSL layout rules (lib/structgen.py) used as ground truth"]


def cases(rng, tier):
    return structcases.cases(rng, tier)


def verdict_expr(c, r, ir, real):
    t = structcases.truth_term(c["truth"], c["opts"])
    return ('[wf %s; agree_res agree_C09 (gen %s ""%%string None %s) %s; '
            'match %s with Ok o => C09_ok %s %s o && truth_structs_ok o %s | Panic _ => %s | _ => false end]'
            % (ir, ir, coq_options(c["opts"]), real, real, ir, coq_options(c["opts"]), t,
               "true" if c["needs_encase"] else "false"))


def nontrivial(c, r):
    return structcases.nontrivial(c, r)
