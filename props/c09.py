"""C09 - struct property (see DESIGN.md §5 C09); cases shared with the other struct properties."""
from common import coq_options
import structcases
import obs

ID = "C09"
ENV_RERUN = 40          # cases repeated from a cargo build-script environment (lib/runner.py with_build_env)
VALIDATE_MIX = True
REQUIRES = ["Agree", "StructSpec", "Truth"]
THEOREM_REQUIRES = ["C09"]
THEOREMS = ["C09_holds_bool", "C09_non_interference", "C09_non_interference_text", "C09_fields_only_mv"]
PROOF_FILES = ["Proofs/GenInv.v", "Proofs/TypeDfs.v", "Proofs/StructProof.v", "Properties/C09.v"]
RULE = ("random type DAGs: host structs (scalars, vec2-4 of f32/i32/u32, all 9 matrix shapes, atomics, fixed arrays incl. "
        "arrays of structs, nesting <= 3, shared members, optional trailing runtime-sized array) used by globals in "
        "uniform / storage / private / workgroup space directly or through arrays, unused and function-local structs, "
        "vertex input structs, an inter-stage struct (vertex result = fragment parameter), fragment output structs, a "
        "struct that is both host-shareable and a vertex input; x option sets (3 per program in the quick tier, all 48 "
        "in the thorough tier); ground truth from the generator's description (emitted set, roles, WGSL layout by an "
        "independent Python implementation of the WGSL rules) compared with the real output; non-trivial = >= 2 "
        "emitted structs; distinct = distinct (IR dump, options)")
ASSUMPTIONS = ["naga's member offsets / spans / strides are the WGSL layout: checked per case against the independent "
               "Python implementation of the WGSL alignment rules through the ground-truth comparison"]
TRUSTED_EXTRA = ["Python implementation of the WGSL layout rules (lib/structgen.py) used as ground truth"]


ROLE_A = ("struct Instance { @location(4) offset: vec4<f32>, @location(5) tint: vec4<f32> }\n"
          "@group(0) @binding(0) var<storage, read_write> instances: array<Instance>;\n"
          "@compute @workgroup_size(64) fn cull() { instances[0].tint = vec4<f32>(1.0); }\n")
ROLE_B = ("struct Instance { @location(4) offset: vec4<f32>, @location(5) tint: vec4<f32> }\n"
          "@vertex fn vs_main(i: Instance) -> @builtin(position) vec4<f32> { return i.offset; }\n")


def cases(rng, tier):
    out = structcases.cases(rng, tier, big_arrays=True, huge_arrays=True, allow_bool=True)
    # the same struct definition in two modules generated one after the other with the same options: host-shareable
    # (storage element) in one, a plain vertex input in the other - its derives follow ITS role in THAT module
    pairs = []
    for o in (rng.sample(structcases.ALL_OPTS, 6) + [dict(structcases.ALL_OPTS[0], bm_vertex=True, encase=True)]):
        if o.get("mv") == "Nalgebra" and o.get("encase"):
            continue
        o = dict(o, encase=True, bm_host=False)      # the runtime-sized array needs encase and no host bytemuck
        for w, host in ((ROLE_A, True), (ROLE_B, False), (ROLE_A, True), (ROLE_B, False)):
            pairs.append({"wgsl": w, "family": "same_struct_two_roles", "opts": dict(o), "needs_encase": host,
                          "truth": [{"name": "Instance", "host": host, "rts": False, "size": 32,
                                     "offsets": [("offset", 0), ("tint", 16)],
                                     "members": [("offset", "(SArr 4%N (SScalar PF32))"), ("tint", "(SArr 4%N (SScalar PF32))")]}]})
    out = pairs + out
    for c in out:
        c["want_rest"] = True
    return out


ELIGIBLE = lambda c: not (c["opts"].get("mv") == "Nalgebra" and c["opts"].get("encase"))


def run_cases(plain, cases_, workdir, tag):
    # behavioural level: the first 40 eligible modules are compiled (all real derive crates present) and probed
    res = obs.attach(plain, cases_, workdir, tag, ELIGIBLE, 40 if "search" not in tag else 0)
    # "no option changes any part of the output other than the part it documents": for one shader, everything except
    # the Rust structs of WGSL structs (and their layout assertions) is the same text under every option set
    by_src = {}
    for c, r in zip(cases_, res):
        if r.get("result") == "ok" and r.get("rest") is not None:
            by_src.setdefault(c["wgsl"], []).append((c, r))
    for group in by_src.values():
        c0, r0 = group[0]
        for c, r in group[1:]:
            if r["rest"] != r0["rest"]:
                r["rest_differs"] = "the part of the module outside the struct definitions differs between option sets %s and %s" % (c0["opts"], c["opts"])
        # ... and the fields of the structs (names, types) are a function of the shader and `matrix_vector_types` alone:
        # no derive switch changes them
        by_mv = {}
        for c, r in group:
            if r.get("struct_fields") is not None:
                by_mv.setdefault(c["opts"].get("mv", "Rust"), []).append((c, r))
        for g2 in by_mv.values():
            c0, r0 = g2[0]
            for c, r in g2[1:]:
                if r["struct_fields"] != r0["struct_fields"] and not r.get("rest_differs"):
                    r["rest_differs"] = ("the struct fields differ between option sets %s and %s that select the same representation: %s / %s"
                                         % (c0["opts"], c["opts"], r0["struct_fields"][:300], r["struct_fields"][:300]))
    return res


def _obs(c, r):
    if r.get("rest_differs"):
        c["note"] = r["rest_differs"]
        return "false"
    if "obs" not in r or r.get("result") != "ok":
        return "true"
    if obs.not_compiled(r):
        why = str((r.get("obs") or {}).get("why"))
        c["note"] = "module rejected at compile time: " + why[:300]
        return "true"       # rejection is the permitted outcome for this property (C01 decides which rejections are permitted)
    if not obs.usable(r):
        c["note"] = "no observations: %s" % str(r.get("obs"))[:300]
        return "false"
    ok, why = obs.check_c09(c["truth"], c["opts"], r)
    c["note"] = why
    return "true" if ok else "false"


def verdict_expr_noout(c, r, ir):
    if "obs" not in r and not r.get("rest_differs"):
        return None
    return "[true; false; %s]" % _obs(c, r)


def verdict_expr(c, r, ir, real):
    t = structcases.truth_term(c["truth"], c["opts"])
    if c["opts"].get("validate") and r.get("valid") is False:
        # rejected by the validator that was asked for: not an accepted shader (the model must agree on the error)
        return '[wf %s; agree_res agree_C09 (gen %s ""%%string None %s) %s; true]' % (ir, ir, coq_options(c["opts"]), real)
    return _verdict(c, r, ir, real, t).replace("OBS", _obs(c, r))


def _verdict(c, r, ir, real, t):
    return ('[wf %s; agree_res agree_C09 (gen %s ""%%string None %s) %s; '
            'match %s with Ok o => C09_ok %s %s o && truth_structs_ok o %s | Panic _ => %s | _ => false end && OBS]'
            % (ir, ir, coq_options(c["opts"]), real, real, ir, coq_options(c["opts"]), t,
               "true" if structcases.panic_expected(c) else "false"))


def nontrivial(c, r):
    return structcases.nontrivial(c, r)
