"""C11 - group numbering contract."""
import itertools

from common import coq_bool, coq_options, coq_string
import obs

ID = "C11"
ENV_RERUN = 40          # cases repeated from a cargo build-script environment (lib/runner.py with_build_env)
REQUIRES = ["Agree", "C11Spec"]
THEOREM_REQUIRES = ["C11"]
THEOREMS = ["C11_holds_bool", "C11_success_iff", "C11_success_content", "C11_duplicate_iff",
            "C11_nonconsecutive_iff", "C11_errors_only_from_this_stage"]
PROOF_FILES = ["Proofs/GenInv.v", "Proofs/NoErr.v", "Proofs/C11Proof.v", "Proofs/C11Link.v", "Properties/C11.v"]
RULE = ("multisets of (@group,@binding) pairs rendered as WGSL resource declarations in a given order: "
        "bounded-exhaustive sample over <=4 pairs from groups {0..3} x bindings {0..2} (all orders), random "
        "lists up to 12 variables with sparse/extreme indices, with and without naga validation; a case is "
        "non-trivial if it declares >= 2 bound variables; distinct = distinct IR dumps")
ASSUMPTIONS = ["naga's front end keeps global variables in declaration order (checked by the ground-truth "
               "comparison of the IR dump with the generated pair list)"]

KINDS = [
    "var<uniform> {n}: vec4<f32>;",
    "var<storage, read> {n}: array<f32>;",
    "var<storage, read_write> {n}: array<u32>;",
    "var {n}: texture_2d<f32>;",
    "var {n}: sampler;",
    "var<uniform> {n}: mat4x4<f32>;",
    "var {n}: texture_depth_2d;",
]


def num(v):
    return "%du" % v if v > 2147483647 else "%d" % v


# resource types the generator has no layout for (it panics on them once the numbering contract is met): they are only
# declared in modules whose numbering must be rejected, where the typed error has to come first
UNSUPPORTED_KINDS = [
    "var {n}: binding_array<texture_2d<f32>, 4>;",
    "var {n}: binding_array<sampler, 2>;",
]


def _must_reject(pairs):
    gs = sorted({g for g, _ in pairs})
    return len(set(pairs)) != len(pairs) or gs != list(range(len(gs)))


def render(pairs, rng, use=True):
    lines = []
    names = []
    reject = _must_reject(pairs)
    for i, (g, b) in enumerate(pairs):
        n = "v%d" % i
        names.append(n)
        kinds = KINDS + (UNSUPPORTED_KINDS if reject and rng.random() < 0.3 else [])
        lines.append("@group(%s) @binding(%s) %s" % (num(g), num(b), rng.choice(kinds).format(n=n)))
    # an unbound private variable in between must not disturb anything
    if rng.random() < 0.3:
        lines.insert(rng.randrange(len(lines) + 1), "var<private> scratch: f32;")
    if rng.random() < 0.25:
        # the variables are used, by entry points of different stages (a slot shared by resources of different entry points
        # is still one slot of one bind group layout: the contract is about declarations)
        readable = []
        for l in lines:
            if l.startswith("@group") and "var<uniform>" in l:
                nm = l.split("var<uniform> ")[1].split(":")[0]
                readable.append(nm + (".x" if "vec4<f32>" in l else "[0].x"))
        if len(readable) >= 2:
            lines.append("@vertex fn vs_main() -> @builtin(position) vec4<f32> { return vec4<f32>(%s); }" % readable[0])
            lines.append("@fragment fn fs_main() -> @location(0) vec4<f32> { return vec4<f32>(%s); }" % readable[-1])
            return "\n".join(lines) + "\n"
    stage = rng.choice(["@compute @workgroup_size(1)", "@fragment", "@vertex", "none"])
    if stage == "none":
        pass        # a module without any entry point: the numbering contract holds all the same
    elif stage == "@vertex":
        lines.append("@vertex fn main() -> @builtin(position) vec4<f32> { return vec4<f32>(0.0); }")
    else:
        lines.append("%s fn main() {}" % stage)
    return "\n".join(lines) + "\n"


def cases(rng, tier):
    out = []
    universe = [(g, b) for g in range(4) for b in range(3)]
    allseq = []
    for k in range(1, 5):
        allseq.extend(itertools.product(universe, repeat=k))
    if tier == "thorough":
        pick = allseq
    else:
        n = 900 if tier == "quick" else 2500
        pick = rng.sample(allseq, n)
    for seq in pick:
        out.append({"wgsl": render(list(seq), rng), "family": "bounded_exhaustive",
                    "opts": {"validate": False}, "truth_pairs": list(seq)})
    nrand = {"quick": 500, "search": 1500, "thorough": 4000}[tier]
    for i in range(nrand):
        nvars = rng.choice([1, 2, 3, 4, 5, 6, 8, 12])
        mode = rng.random()
        if mode < 0.05:   # dense, unique, two-digit group numbers
            nvars = rng.randint(11, 14)
            pairs = [(g, rng.choice([0, 1, 5])) for g in range(nvars)]
            rng.shuffle(pairs)
        elif mode < 0.45:   # dense, unique
            ng = rng.randint(1, min(8, nvars))
            groups = list(range(ng)) + [rng.randrange(ng) for _ in range(nvars - ng)]
            rng.shuffle(groups)
            used = set()
            pairs = []
            for g in groups:
                b = rng.choice([0, 1, 2, 3, 7, 31, 999, rng.randrange(1000), 4294967295])
                while (g, b) in used:
                    b = rng.randrange(100000)
                used.add((g, b))
                pairs.append((g, b))
        elif mode < 0.7:  # gaps
            pairs = []
            used = set()
            for _ in range(nvars):
                g = rng.choice([0, 1, 2, 3, 5, 9, 4294967295])
                b = rng.randrange(50)
                while (g, b) in used:
                    b = rng.randrange(100000)
                used.add((g, b))
                pairs.append((g, b))
        else:             # duplicates likely
            pairs = [(rng.randrange(3), rng.choice([0, 1, 2, 4294967295, 63, 64, 65, 100, 65536, 2147483648])) for _ in range(nvars)]
        out.append({"wgsl": render(pairs, rng), "family": "random",
                    "opts": {"validate": rng.random() < 0.3}, "truth_pairs": pairs})
    return out


def _accepts(c):
    ps = c.get("truth_pairs", [])
    gs = sorted({g for g, _ in ps})
    return len(set(ps)) == len(ps) and gs == list(range(len(gs))) and max([b for _, b in ps] + [0]) < 2 ** 31


def run_cases(plain, cases_, workdir, tag):
    # behavioural level: 40 modules the generator must accept are compiled against the recording shim
    return obs.attach(plain, cases_, workdir, tag, _accepts, 40 if "search" not in tag else 0)


def _obs(c, r):
    if "obs" not in r or r.get("result") != "ok":
        return "true"
    if not obs.usable(r):
        c["note"] = "module did not build / run on the shim: %s" % str(r.get("obs"))[:300]
        return "false"
    ok, why = obs.check_c11(c["truth_pairs"], r)
    c["note"] = why
    return "true" if ok else "false"


def verdict_expr_noout(c, r, ir):
    if "obs" not in r:
        return None
    return "[true; false; %s]" % _obs(c, r)


def verdict_expr(c, r, ir, real):
    preempt = bool(c["opts"].get("validate")) and r.get("valid") is False
    truth = "[" + "; ".join("(%d%%N, %d%%N)" % (g, b) for g, b in c.get("truth_pairs", [])) + "]"
    has_truth = "truth_pairs" in c
    gt = ("list_eqb nn_eqb (pairs %s) %s" % (ir, truth)) if has_truth else "true"
    return ('[wf_global_types %s && %s; agree_res agree_C11 (gen %s ""%%string None %s) %s; C11_ok %s %s %s && %s]'
            % (ir, gt, ir, coq_options(c["opts"]), real, ir, coq_bool(preempt), real, _obs(c, r)))


def nontrivial(c, r):
    return len(c.get("truth_pairs", [])) >= 2
