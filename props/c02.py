"""C02 - bind group layouts pass wgpu's shader-interface validation."""
import json
import os

from common import *  # noqa
import resgen
import wgslgen as W

ID = "C02"
ENV_COMPARE = 30         # cases generated once more from a cargo build-script environment: same result (lib/runner.py)
TABLES = ["buffer_binding", "storage_access"]      # leaf tables compared exhaustively through the hooks (coq/Check/Tables.v)
VALIDATE_MIX = True
REQUIRES = ["C02Features", "Agree", "C02Spec", "C02Proof"]
THEOREM_REQUIRES = ["C02"]
THEOREMS = ["C02_holds_bool", "C02_compatible", "C02_no_spurious_feature", "C02_refuted_ms_float", "C02_refuted_int_gather"]
PROOF_FILES = ["Proofs/GenInv.v", "Proofs/Traversal.v", "Proofs/StageMap.v", "Proofs/C11Proof.v", "Proofs/C11Link.v",
               "Proofs/C03Link.v", "Proofs/C02Proof.v", "Proofs/C02FeaturesProof.v", "Properties/C02.v"]
RULE = ("validated modules declaring 1..10 resources over every WGSL resource type (uniform / storage read / read_write "
        "buffers of struct, array, runtime array, scalar, vector, matrix, atomics; sampled textures 1d/2d/2d_array/3d/cube/"
        "cube_array x f32/i32/u32; depth textures incl. multisampled; multisampled textures; storage textures over all 41 "
        "formats x read/write/read_write/atomic x 1d/2d/2d_array/3d; sampler, sampler_comparison) at sparse bindings in "
        "1..3 groups, used from 1..3 entry points of mixed stages directly and through helper functions via textureLoad / "
        "SampleLevel / SampleCompareLevel / Gather / Store / AtomicAdd / Dimensions / loads / stores / atomics; oracle: the "
        "real wgpu_core::validation::Interface::check_stage on the layout entries evaluated from the generated text, for "
        "every entry point, plus wgpu-core's per-entry create_bind_group_layout rules (re-implemented from resource.rs "
        "with line references) under all features; non-trivial = >= 2 resources used; distinct = distinct IR dumps")
ASSUMPTIONS = ["naga's ModuleInfo (which globals an entry point uses, its texture-sampler pairs) is an oracle input; premise "
               "uses_sound (reported uses are statically accessed) evaluated per case",
               "WgpuValid.v is a hand model of wgpu-core 24.0.5 validation, validated per case against the real check_stage",
               "documented assumption of the property: all wgpu features enabled (TEXTURE_ADAPTER_SPECIFIC_FORMAT_FEATURES, "
               "TEXTURE_ATOMIC, VERTEX_WRITABLE_STORAGE); format-specific storage capabilities are not checked"]
VERDICT_FIELDS = ["wf_and_premises", "a_model_agrees_and_WgpuValid_agrees_with_real_check_stage", "b_real_check_stage_and_bgl_rules_pass",
                  "kf1_multisampled_float_filterable", "kf2_integer_texture_with_filtering_sampler"]


def cases(rng, tier):
    n = {"quick": 500, "search": 1000, "thorough": 5000}[tier]
    out = []
    for i in range(n):
        p = resgen.program(rng, allow_int_gather=(i % 10 == 0))
        # the layouts do not depend on the derive options: every option set must give layouts that validate
        o = [{"encase": True}, {"bm_host": True, "bm_vertex": True}, {"encase": True}, {"encase": True, "serde": True, "mv": "Glam"},
             {"encase": True}, {"bm_host": True, "mv": "Nalgebra"}][i % 6]
        out.append({"wgsl": p["wgsl"], "family": "resources", "opts": dict(o), "tags": p["tags"]})
    # call-graph shapes that expose stale analysis caches shared between entry points (visibility too small for a later stage)
    for i in range(n // 10):
        out.append({"wgsl": W.diamond_program(rng, "global").render(), "family": "diamond_across_stages", "opts": {}, "tags": []})
        if i % 2 == 0:
            out.append({"wgsl": W.random_program(rng).render(), "family": "call_graph", "opts": {}, "tags": []})
    # single-stage modules with workgroup / private variables: a binding first used by a later entry point is visible
    for i in range(n // 25):
        out.append({"wgsl": W.single_stage_late_user_program(rng, rng.choice(["compute", "compute", "fragment"])).render(),
                    "family": "single_stage_late_user", "opts": {}, "tags": []})
    # many functions: a resource reached only through a helper with a large handle must still be visible to its stage
    for nh in ((70, 300) if tier != "thorough" else (70, 130, 300, 600)):
        out.append({"wgsl": W.many_functions_program(nh).render(), "family": "many_functions", "opts": {}, "tags": []})
    # deep call chains: a resource touched only at the bottom is used by the stage at the top, at any depth (and by no other:
    # a writable storage buffer must not become visible to the vertex stage)
    for d, form in ((66, "let"), (70, "cond"), (130, "let"), (40, "stmt")) + (((260, "let"), (33, "fwd")) if tier == "thorough" else ()):
        out.append({"wgsl": W.deep_chain_program(d, form).render(), "family": "deep_chain", "opts": {}, "tags": []})
    return out


def witness_case(k):
    return {"tags": []}


def run_cases(plain, cases_, workdir, tag):
    res = run_driver(plain, workdir, tag)
    orc = run_driver(plain, workdir, tag + "_wgpu", sub="wgpu")
    for r, o in zip(res, orc):
        r["wgpu"] = o
    return res


def real_ok(r):
    """the real oracle's verdict: every entry point passes check_stage (binding / filtering), every entry passes bgl rules"""
    w = r.get("wgpu") or {}
    if w.get("skipped") or w.get("stage_skipped"):
        return None
    stage = all(e.get("result") == "ok" or e.get("kind") == "input" for e in w.get("entry_points", []))
    bgl = all(b.get("bgl_all_features") == "ok" for b in w.get("bgl", []))
    return stage, bgl


def coq_uses(r):
    uses = "[" + "; ".join("[" + "; ".join("%d%%nat" % h for h in us) + "]" for us in (r.get("uses") or [])) + "]"
    samp = "[" + "; ".join("[" + "; ".join("(%d%%nat, %d%%nat)" % (a, b) for a, b in ps) + "]" for ps in (r.get("sampling") or [])) + "]"
    return uses, samp


def verdict_expr(c, r, ir, real):
    ok = real_ok(r)
    if r.get("valid") is not True or ok is None or r.get("result") != "ok":
        return "[true; true; true]"      # outside the oracle's domain (invalid module / generator error): not counted
    uses, samp = coq_uses(r)
    stage, bgl = ok
    o = coq_options(c["opts"])
    return ('[wf %s && wf_resources %s && uses_sound %s %s && wf_sampling %s %s; '
            'agree_res agree_C03 (gen %s ""%%string None %s) %s '
            '&& on_out %s (fun o => Bool.eqb (C02_stage_ok %s o %s %s) %s && Bool.eqb (C02_bgl_ok o) %s); '
            '%s && on_out %s (fun o => C02_features_ok %s o); kf_ms_float %s; kf_int_sampling %s %s]'
            % (ir, ir, ir, uses, ir, samp, ir, o, real, real, ir, uses, samp, "true" if stage else "false",
               "true" if bgl else "false", "true" if (stage and bgl) else "false", real, ir, ir, ir, samp))


def verdict_expr_noout(c, r, ir):
    """the returned text no longer matches the templates: clause (b) is decided by the real wgpu-core oracle alone, which
    evaluates the layout entries of the returned text itself (harness/driver/src/wgpuval.rs)"""
    ok = real_ok(r)
    if r.get("valid") is not True or ok is None or r.get("result") != "ok":
        return None
    uses, samp = coq_uses(r)
    stage, bgl = ok
    w = r.get("wgpu") or {}
    bad = [e for e in w.get("entry_points", []) if not (e.get("result") == "ok" or e.get("kind") == "input")]
    c["note"] = "extraction failed (%s); real wgpu-core: %s" % (r.get("extract_err"), str(bad[:2] or w.get("bgl"))[:400])
    return "[true; false; %s; kf_ms_float %s; kf_int_sampling %s %s]" % ("true" if (stage and bgl) else "false", ir, ir, samp)


def nontrivial(c, r):
    return r.get("result") == "ok" and r.get("valid") is True and sum(len(u) for u in (r.get("uses") or [])) >= 2


def extra_coverage(recs):
    tags, skipped = {}, 0
    for r in recs:
        for t in r["case"].get("tags", []):
            tags[t] = tags.get(t, 0) + 1
        if r["res"].get("valid") is not True:
            skipped += 1
    return {"resource_kinds": tags, "not_validated_by_naga": skipped}
