"""C07 - vertex buffer layouts mirror the vertex input structs."""
from common import coq_options, coq_string, run_batch, run_driver
import sink

ID = "C07"
VALIDATE_MIX = True      # every third case also goes through the validator: it only gates (unread parameters included)
ENV_RERUN = 40          # cases repeated from a cargo build-script environment (lib/runner.py with_build_env)
TABLES = ["vertex_format"]      # leaf tables compared exhaustively through the hooks (coq/Check/Tables.v)
REQUIRES = ["Agree", "C07Spec", "C07Premise", "Truth"]
THEOREM_REQUIRES = ["C07"]
THEOREMS = ["C07_holds", "C07_holds_structure", "C07_format_table", "C07_layout_rules", "C07_leaf_layouts"]
PROOF_FILES = ["Proofs/GenInv.v", "Spec/RustLayout.v", "Proofs/StructProof.v", "Proofs/C07Proof.v", "Proofs/C07Comp.v", "Properties/C07.v"]
RULE = ("shaders with 1..3 vertex input structs over f32/i32/u32/f64 scalars and vec2-4, arbitrary (sparse, unordered) "
        "location numbers, @builtin members interleaved (also builtin-only structs), 1..3 structs per vertex entry, "
        "structs shared by several entries (adjacent and non-adjacent), bare builtin parameters, x Rust / Glam / Nalgebra "
        "x bytemuck switches; oracles: (i) real wgpu-core Interface::check_stage of every vertex entry with the emitted "
        "formats / locations as vertex inputs, (ii) the compiled module on the recording shim: VERTEX_ATTRIBUTES offsets, "
        "array_stride, vertex_buffer_layout(step) and <entry>_entry(..).buffers as rustc evaluates them, compared with "
        "RustLayout on the extracted struct and with wgpu's vertex-buffer rules; non-trivial = a vertex entry with >= 1 "
        "struct parameter; distinct = distinct (IR, options)")
ASSUMPTIONS = ["RustLayout.v (repr(C) + glam 0.29 / stub-nalgebra leaf table) is a model, validated per compiled module "
               "against rustc's offset_of!/size_of",
               "device limits (max_vertex_attributes, max_vertex_buffer_array_stride, VERTEX_ATTRIBUTE_64BIT) are premises "
               "of the property, not checked",
               "the composition 'fields of the emitted struct are exactly the leaf layouts of the theorem' is evaluated per "
               "case (C07_layout_ok on the real output), the generic theorems C07_layout_rules + C07_leaf_layouts are proved"]
VERDICT_FIELDS = ["wf", "a_model_agrees", "b_structure_layout_rules_and_real_oracles", "kf1_struct_not_emitted", "kf2_bare_location_argument"]

VT = ["f32", "vec2<f32>", "vec3<f32>", "vec4<f32>", "i32", "vec2<i32>", "vec3<i32>", "vec4<i32>", "u32", "vec2<u32>", "vec3<u32>",
      "vec4<u32>", "f64", "vec2<f64>", "vec3<f64>", "vec4<f64>"]
NAMES = ["VertexInput", "InstanceInput", "Extra", "vertex_data", "PerVertex", "Geo", "Skin", "A", "B2"]
# names that differ only in a numeric suffix / its leading zeros / its size: distinct structs, each with its own table
NUMBERED = ["Vertex", "Vertex0", "Vertex1", "Vertex01", "Stream1", "Stream01", "Input2", "Input10", "Uv0", "Uv18446744073709551616", "Vertex00"]


def program(rng):
    nstruct = rng.randint(1, 4)
    names = rng.sample(NAMES if rng.random() < 0.75 else NUMBERED, nstruct)
    lines, structs = [], {}
    loc = 0
    nbuf = -1
    restart = rng.random() < 0.3      # every struct starts at location 0 again: fine for structs of different entry points
    struct_locs = {}
    for n in names:
        k = rng.randint(1, 5)
        if restart:
            loc = 0
        locs = list(range(loc, loc + k))
        struct_locs[n] = set(locs)
        loc += k + rng.randint(0, 2)
        if rng.random() < 0.4:
            rng.shuffle(locs)
        # member names in every naming convention: the attribute names the Rust field of the SAME name
        style = rng.choice(["f%d", "f%d", "texCoord%d", "baseColor%d", "Normal%d", "uv%dScale", "_m%d", "POS%d"])
        fields = ["@location(%d) %s: %s" % (l, style % i, rng.choice(VT[:12] if rng.random() < 0.85 else VT)) for i, l in enumerate(locs)]
        if rng.random() < 0.3:
            fields.insert(rng.randrange(len(fields) + 1), "@builtin(vertex_index) vi: u32")
        elif rng.random() < 0.1:
            fields = ["@builtin(instance_index) ii: u32"]
            struct_locs[n] = set()
        structs[n] = fields
        lines.append("struct %s { %s }" % (n, ", ".join(fields)))
        if rng.random() < 0.3 and not any("f64" in f for f in fields):
            # the vertex input struct is ALSO the element type of a buffer (compute-then-draw): its attribute table must
            # still carry the offsets / stride of the Rust struct
            nbuf += 1
            lines.append("@group(0) @binding(%d) var<storage, read> buf%d: array<%s, 4>;" % (nbuf, nbuf, n))
        if rng.random() < 0.25:
            # a NON-entry helper that takes and returns the vertex input struct (skinning, unpacking ...): still an input struct
            lines.append("fn adjust_%s(v: %s) -> %s { return v; }" % (n.lower(), n, n))
    nent = rng.randint(1, 3)
    for e in range(nent):
        chosen, used_bi = [], set()
        used_locs = set()
        for n in rng.sample(names, rng.randint(1, min(3, nstruct))):
            bi = {f.split("(")[1].split(")")[0] for f in structs[n] if "@builtin" in f}
            if bi & used_bi:
                continue
            if struct_locs[n] & used_locs:
                continue             # within ONE entry point locations are unique
            used_locs |= struct_locs[n]
            used_bi |= bi
            chosen.append(n)
        params = ["p%d: %s" % (i, n) for i, n in enumerate(chosen)]
        if rng.random() < 0.25 and "instance_index" not in used_bi:
            params.insert(rng.randrange(len(params) + 1), "@builtin(instance_index) inst: u32")
        lines.append("@vertex fn vs%d(%s) -> @builtin(position) vec4<f32> { return vec4<f32>(0.0); }" % (e, ", ".join(params)))
    if rng.random() < 0.3:
        lines.append("@fragment fn fs() -> @location(0) vec4<f32> { return vec4<f32>(1.0); }")
    if rng.random() < 0.3:
        # simulate + draw in one file: a compute entry point next to the vertex entries
        lines.insert(rng.randrange(len(lines) + 1), "@compute @workgroup_size(64) fn simulate() { }")
    return "\n".join(lines) + "\n"


def cases(rng, tier):
    n = {"quick": 120, "search": 300, "thorough": 1200}[tier]
    out = []
    for i in range(n):
        o = {"mv": rng.choice(["Rust", "Glam", "Nalgebra"]), "bm_vertex": rng.random() < 0.5, "bm_host": rng.random() < 0.3,
             "encase": False, "serde": rng.random() < 0.2}
        out.append({"wgsl": program(rng), "family": "vertex_structs", "opts": o})
    for i in range(n // 6):
        s = sink.sink(rng, n_consts=0, n_overrides=rng.choice([0, 2]))
        out.append({"wgsl": s["wgsl"], "family": "sink", "opts": {"mv": rng.choice(["Rust", "Glam"])}})
    return out


def witness_case(k):
    return {}


def run_cases(plain, cases_, workdir, tag):
    res, _ = run_batch(plain, workdir, tag, real=False, shim=True)
    orc = run_driver(plain, workdir, tag + "_wgpu", sub="wgpu")
    for r, o in zip(res, orc):
        r["wgpu"] = o
    return res


def oracle_ok(r):
    """(check_stage of vertex entries has no input error, observations from the compiled module)"""
    w = r.get("wgpu") or {}
    stage = True
    if not w.get("skipped") and not w.get("stage_skipped"):
        for e in w.get("entry_points", []):
            if e.get("stage") in ("Vertex", "vertex", "VERTEX") and e.get("result") != "ok":
                stage = False
            if e.get("vertex_layout_errors"):
                if any("TooMany" not in str(x) for x in e["vertex_layout_errors"]):
                    stage = False
    return stage


def obs_terms(r):
    obs = r.get("obs") or {}
    vs = obs.get("vertex_structs")
    if not isinstance(vs, dict):
        return None
    terms = []
    for name, d in sorted(vs.items()):
        attrs = "; ".join("(%d%%N, %d%%N)" % (a["shader_location"], a["offset"]) for a in d["attributes"])
        stride = d["layout_vertex"]["array_stride"]
        if d["layout_instance"]["array_stride"] != stride or not d["layout_vertex"].get("attributes_same", True):
            return False
        terms.append("(%s, [%s], %d%%N)" % (coq_string(name), attrs, stride))
    # entry helpers: buffers in order must be the layouts of their structs
    return "[" + "; ".join(terms) + "]"


def verdict_expr(c, r, ir, real):
    if r.get("result") != "ok":
        return "[true; agree_res agree_C07 (gen %s \"\"%%string None %s) %s; true]" % (ir, coq_options(c["opts"]), real)
    stage = oracle_ok(r)
    ot = obs_terms(r)
    obs_expr = "true"
    if ot is False:
        obs_expr = "false"
    elif ot is not None:
        obs_expr = "forallb (obs_vertex_ok o) %s" % ot
    elif (r.get("obs") or {}).get("obs", 1) is None:
        obs_expr = "true"      # the module did not build against the shim (known C01 classes); not this property's oracle
    # the known-finding classes are decided on the SHADER (the cause), not on the output (the symptom): a struct missing
    # from the output for any other reason than "also an entry point result" is a violation
    return ('[wf %s && (wf_vertex_inputs %s || kf_vertex_struct_is_result %s); agree_res agree_C07 (gen %s ""%%string None %s) %s; '
            'on_out %s (fun o => C07_ok %s o && %s && %s); '
            'kf_vertex_struct_is_result %s; kf_bare_location_arg %s]'
            % (ir, ir, ir, ir, coq_options(c["opts"]), real, real, ir, obs_expr, "true" if stage else "false", ir, ir))


def behavioural_ok(r):
    """(b) from the compiled module alone (used when the extractor cannot follow the text): every attribute table must
    carry, in order, rustc's own offset_of! of the fields of the struct it describes, the stride must be rustc's
    size_of, both step modes must give the same table, and every entry helper must return its structs' layouts."""
    obs = r.get("obs") or {}
    vs = obs.get("vertex_structs")
    if not isinstance(vs, dict):
        return None, "no observations"
    for name, d in vs.items():
        st = (obs.get("structs") or {}).get(name)
        if st is None:
            continue
        offs = [f["offset"] for f in st["fields"]]
        got = [a["offset"] for a in d["attributes"]]
        if got != offs:
            return False, "attribute offsets of %s are %s, rustc's field offsets are %s" % (name, got, offs)
        if d["layout_vertex"]["array_stride"] != st["size"] or d["layout_instance"]["array_stride"] != st["size"]:
            return False, "array_stride of %s is %s, size_of is %s" % (name, d["layout_vertex"]["array_stride"], st["size"])
    return True, ""


def verdict_expr_noout(c, r, ir):
    ok, why = behavioural_ok(r)
    if ok is None:
        return None
    c["note"] = why
    return "[true; false; %s; false; false]" % ("true" if ok and oracle_ok(r) else "false")


def nontrivial(c, r):
    return r.get("result") == "ok" and "p0:" in c["wgsl"]
