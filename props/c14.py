"""C14 - entry point metadata matches the shader's entry points."""
from common import coq_options
import sink

ID = "C14"
REQUIRES = ["Agree", "C14Spec", "Truth"]
THEOREM_REQUIRES = ["C14"]
THEOREMS = ["C14_holds_bool", "C14_target_count"]
PROOF_FILES = ["Proofs/GenInv.v", "Proofs/Tactics.v", "Proofs/C14Proof.v", "Properties/C14.v"]
RULE = ("kitchen-sink shaders with 0..2 entry points per stage, arbitrary (incl. non-ASCII, mixed-case) names, workgroup "
        "sizes with 1-3 dimensions from literals and constants, fragment results: none / builtin / scalar / vector at "
        "location k / structs with dense or sparse locations and builtins, vertex entries with 0..3 struct parameters "
        "and builtin parameters; ground truth (names, workgroup sizes incl. missing dims = 1, needed targets = max "
        "location + 1, struct parameters) computed in Python and compared with the real output; non-trivial = >= 2 "
        "entry points; distinct = distinct IR dumps")
ASSUMPTIONS = ["the behaviour of the fixed templates (vertex_state / fragment_state forward their fields) is checked "
               "token-for-token by the extractor against the expected template text; it is executed in C01's compiled batch"]


def cases(rng, tier):
    n = {"quick": 500, "search": 1000, "thorough": 4000}[tier]
    out = []
    for i in range(n):
        s = sink.sink(rng, n_consts=rng.randint(0, 2))
        out.append({"wgsl": s["wgsl"], "family": "entries", "opts": {"rustfmt": i % 10 == 0}, "truth": s["entries"]})
    return out


def verdict_expr(c, r, ir, real):
    names, comp, frag, vert = sink.coq_entries_truth(c["truth"])
    return ('[true; agree_res agree_C14 (gen %s ""%%string None %s) %s; '
            'on_ok %s (fun o => C14_ok %s o && truth_entries_ok o %s %s %s %s)]'
            % (ir, coq_options(c["opts"]), real, real, ir, names, comp, frag, vert))


def nontrivial(c, r):
    return len(c["truth"]) >= 2 and r.get("result") == "ok"
