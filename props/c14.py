"""C14 - entry point metadata matches the shader's entry points."""
from common import coq_options, coq_string
import sink
import obs

ID = "C14"
ENV_RERUN = 40          # cases repeated from a cargo build-script environment (lib/runner.py with_build_env)
REQUIRES = ["ObsCheck", "Agree", "C14Spec", "Truth"]
THEOREM_REQUIRES = ["C14"]
THEOREMS = ["C14_holds_bool", "C14_target_count", "C14_holds"]
PROOF_FILES = ["Proofs/GenInv.v", "Proofs/Tactics.v", "Proofs/C14Proof.v", "Proofs/C14Obs.v", "Properties/C14.v"]
RULE = ("kitchen-sink shaders with 0..2 entry points per stage, arbitrary (incl. non-ASCII, mixed-case) names, workgroup "
        "sizes with 1-3 dimensions from literals and constants, fragment results: none / builtin / scalar / vector at "
        "location k / structs with dense or sparse locations and builtins, vertex entries with 0..3 struct parameters "
        "and builtin parameters; ground truth (names, workgroup sizes incl. missing dims = 1, needed targets = max "
        "location + 1, struct parameters) computed in Python and compared with the real output; non-trivial = >= 2 "
        "entry points; distinct = distinct IR dumps")
ASSUMPTIONS = ["the behaviour of the fixed templates (vertex_state / fragment_state forward their fields) is checked "
               "token-for-token by the extractor against the expected template text; it is executed in C01's compiled batch"]


def cases(rng, tier):
    n = {"quick": 500, "search": 1000, "thorough": 4000}[tier]
    out = []
    for i in range(n):
        s = sink.sink(rng, n_consts=rng.randint(0, 2))
        out.append({"wgsl": s["wgsl"], "family": "entries", "opts": {"rustfmt": i % 10 == 0}, "truth": s["entries"]})
    # entry points whose names are equal up to case: both names are exported and each helper names ITS entry point (the
    # module itself does not compile - two ENTRY_MAIN constants, a listed finding of C01 - so it is not run on the shim)
    for a, b_, st in (("main", "Main", ("vertex", "fragment")), ("Main", "main", ("fragment", "vertex")), ("cull", "CULL", ("compute", "compute")),
                      ("fs_a", "FS_A", ("fragment", "fragment"))):
        ents, truth = [], []
        for nm, stage in ((a, st[0]), (b_, st[1])):
            if stage == "vertex":
                ents.append("@vertex fn %s() -> @builtin(position) vec4<f32> { return vec4<f32>(0.0); }" % nm)
                truth.append({"name": nm, "stage": "vertex", "structs": []})
            elif stage == "fragment":
                ents.append("@fragment fn %s() -> @location(1) vec4<f32> { return vec4<f32>(0.0); }" % nm)
                truth.append({"name": nm, "stage": "fragment", "targets": 2})
            else:
                ents.append("@compute @workgroup_size(8, 2) fn %s() { }" % nm)
                truth.append({"name": nm, "stage": "compute", "wg": [8, 2, 1]})
        out.append({"wgsl": "\n".join(ents) + "\n", "family": "names_equal_up_to_case", "opts": {}, "truth": truth, "no_obs": True})
    # the highest location a u32 can express: the helper has to ask for 2^32 targets (the count is location + 1, beyond u32);
    # such a module cannot be compiled in a batch, the target count is read off the text
    big = 4294967295
    out.append({"wgsl": "@fragment fn fs_wide() -> @location(%du) vec4<f32> { return vec4<f32>(0.0); }\n" % big, "family": "location_u32_max",
                "opts": {}, "truth": [{"name": "fs_wide", "stage": "fragment", "targets": big + 1}], "no_obs": True})
    out.append({"wgsl": "struct O { @location(0) a: vec4<f32>, @location(%du) b: vec4<f32>, @builtin(frag_depth) d: f32 }\n"
                        "@fragment fn fs_w2() -> O { var o: O; return o; }\n" % big, "family": "location_u32_max",
                "opts": {}, "truth": [{"name": "fs_w2", "stage": "fragment", "targets": big + 1}], "no_obs": True})
    return out


def run_cases(plain, cases_, workdir, tag):
    return obs.attach(plain, cases_, workdir, tag, lambda c: not c.get("no_obs"), 40 if "search" not in tag else 0)


def coq_obs_clause(r, real):
    """Coq-evaluated: Spec/Obs.v's reading of the extracted output (which entry point each helper names once ENTRY_
    constants are resolved, how many targets / which buffers in which order) = what the compiled helpers returned and
    what the compute pipeline constructors handed to the shim device"""
    o = r["obs"]
    cs = "; ".join("(%s, %s)" % (coq_string(k), coq_string(v)) for k, v in sorted((o.get("entry_consts") or {}).items()))
    cps = []
    for fn, cp in sorted((o["device_log"].get("compute_pipelines") or {}).items()):
        if not cp.get("layout_is_own") or not cp.get("module_source_is_own"):
            return "false"
        cps.append("(%s, %s, %s)" % (coq_string(fn), coq_string(cp.get("label") or ""), coq_string(cp.get("entry_point") or "")))
    wgs = "; ".join("(%s, (%d%%N, %d%%N, %d%%N))" % (coq_string(k), v[0], v[1], v[2]) for k, v in sorted((o.get("workgroup_sizes") or {}).items()))
    frs = []
    for fn, fe in sorted((o.get("fragment_entries") or {}).items()):
        if "skipped" in fe:
            return "false"
        frs.append("(%s, %s, %d%%N)" % (coq_string(fn), coq_string(fe.get("entry_point") or ""), fe.get("n", 0)))
    vts = []
    for fn, ve in sorted((o.get("vertex_entries") or {}).items()):
        if "skipped" in ve:
            return "false"
        bufs = "; ".join("(%s, [%s])" % ("true" if b.get("step_mode") == "Instance" else "false",
                                          "; ".join("%d%%N" % a["shader_location"] for a in b.get("attributes", [])))
                         for b in ve.get("buffers", []))
        vts.append("(%s, %s, [%s])" % (coq_string(fn), coq_string(ve.get("entry_point") or ""), bufs))
    return "obs_entries_ok %s [%s] [%s] [%s] [%s] [%s]" % (real, cs, "; ".join(cps), wgs, "; ".join(frs), "; ".join(vts))


def verdict_expr(c, r, ir, real):
    ob = "true"
    if "obs" in r and r.get("result") == "ok":
        ok, why = obs.check_c14(c["truth"], r) if obs.usable(r) else (False, "module did not build / run on the shim: %s" % str(r.get("obs"))[:300])
        c["note"] = why
        ob = "true" if ok else "false"
        if obs.usable(r):
            ob += " && " + coq_obs_clause(r, real)
    return _verdict(c, r, ir, real).replace("OBS", ob)


def _verdict(c, r, ir, real):
    names, comp, frag, vert = sink.coq_entries_truth(c["truth"])
    return ('[true; agree_res agree_C14 (gen %s ""%%string None %s) %s; '
            'on_ok %s (fun o => C14_ok %s o && truth_entries_ok o %s %s %s %s) && OBS]'
            % (ir, coq_options(c["opts"]), real, real, ir, names, comp, frag, vert))


def verdict_expr_noout(c, r, ir):
    # the returned text does not match the templates any more: decide (b) by what the compiled module does
    ob = "true"
    if "obs" in r and r.get("result") == "ok":
        ok, why = obs.check_c14(c["truth"], r) if obs.usable(r) else (False, "module did not build / run on the shim: %s" % str(r.get("obs"))[:300])
        c["note"] = "extraction failed (%s); behaviour: %s" % (r.get("extract_err"), why)
        ob = "true" if ok else "false"
    return "[true; false; %s]" % ob


def nontrivial(c, r):
    return len(c["truth"]) >= 2 and r.get("result") == "ok"
