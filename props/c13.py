"""C13 - push constant range covers the variable, from offset 0, once."""
from common import coq_options
import wgslgen as W
from c03 import stages_term
import obs

ID = "C13"
ENV_RERUN = 40          # cases repeated from a cargo build-script environment (lib/runner.py with_build_env)
VALIDATE_MIX = True
REQUIRES = ["ObsCheck", "Agree", "C13Spec", "C13Proof", "C13Mult", "Truth"]
THEOREM_REQUIRES = ["C13"]
THEOREMS = ["C13_holds_bool", "C13_holds", "C13_wgsl_sizes_multiple_of_4", "C13_length_multiple_of_4"]
PROOF_FILES = ["Proofs/GenInv.v", "Proofs/Traversal.v", "Proofs/StageMap.v", "Proofs/C03Link.v",
               "Proofs/C13Proof.v", "Proofs/C13Obs.v", "Proofs/LayoutFacts.v", "Proofs/C13Mult.v", "Properties/C13.v"]
RULE = ("call-graph programs (as in C03) with and without a push constant variable of type scalar / vec3 / vec4 / "
        "mat2x2 / mat3x3 / mat4x4 / padded structs / arrays, used from entry points directly, through helpers, or not at "
        "all; ground truth: WGSL size from a hand table, stages from the Python closure, 'all entry stages' fallback "
        "when unused; non-trivial = has a push constant; distinct = distinct IR dumps")
ASSUMPTIONS = ["premise pc_size_agrees (naga TypeInner::size = Layouter size) evaluated on every case",
               "premise pc_layout_agrees (the push constant's type is in the domain of Layout.wgsl_lty and naga's Layouter "
               "size = the size the WGSL rules of Spec/Layout.v give) evaluated on every case; with it "
               "C13_length_multiple_of_4 gives 'a multiple of 4', which clause (b) also evaluates on the real output",
               "that create_pipeline_layout passes the range to the device unchanged is fixed template text, checked "
               "token-for-token by the extractor and executed in C01's compiled batch"]

PC_TYPES = [("f32", 4), ("u32", 4), ("vec2<f32>", 8), ("vec3<f32>", 12), ("vec4<f32>", 16), ("mat2x2<f32>", 16),
            ("mat3x3<f32>", 48), ("mat4x4<f32>", 64), ("US", 32), ("PS", 16), ("array<vec4<f32>, 3>", 48),
            ("array<f32, 5>", 20), ("PS2", 48), ("array<vec3<f32>, 4>", 64), ("array<array<vec3<u32>, 2>, 2>", 64),
            ("array<mat3x3<f32>, 2>", 96), ("array<PS, 2>", 32), ("mat2x3<f32>", 32), ("mat4x3<f32>", 64), ("PS3", 80),
            ("PT", 32), ("PT2", 16), ("PT3", 80)]
EXTRA = ("struct PS { a: vec3<f32>, b: f32 }\nstruct PS2 { a: f32, b: vec3<f32>, c: array<vec2<f32>, 2> }\n"
         "struct PS3 { a: array<vec3<f32>, 4>, b: f32 }\n"
         # padding AFTER the last member: the range covers the whole struct
         "struct PT { tint: vec4<f32>, scale: f32 }\nstruct PT2 { direction: vec3<f32> }\nstruct PT3 { transform: mat4x4<f32>, flags: u32 }\n")


def cases(rng, tier):
    n = {"quick": 500, "search": 1000, "thorough": 4000}[tier]
    out = []
    for i in range(n):
        has_pc = i % 4 != 0
        if i % 6 == 1:
            p = W.diamond_program(rng, "pc")
        else:
            p = W.random_program(rng, pc=has_pc, n_globals=rng.randint(0, 3))
        has_pc = p.push_constant is not None
        truth = None
        if has_pc:
            ty, size = rng.choice(PC_TYPES)
            p.push_constant = ("pc", ty)
            used = p.truth().get("pc", set())
            st = used if used else {st for _, st, _ in p.entries}
            truth = (size, sorted(st))
        out.append({"wgsl": EXTRA + p.render(), "family": "pc" if has_pc else "no_pc", "opts": {}, "truth": truth})
    # the variable is used only at the bottom of a deep call chain below the compute entry (other stages exist and do not use it)
    for d, form in ((66, "let"), (130, "cond")):
        p = W.deep_chain_program(d, form, "pc")
        out.append({"wgsl": EXTRA + p.render(), "family": "deep_chain", "opts": {}, "truth": (16, ["compute"])})
    # the variable is mentioned only by a helper that no entry point calls: nothing uses it -> all stages with an entry point
    for k in range(4):
        p = W.random_program(rng, pc=True, n_globals=rng.randint(0, 2))
        if p.push_constant is None:
            continue
        ty, size = rng.choice(PC_TYPES)
        p.push_constant = ("pc", ty)
        used = p.truth().get("pc", set())
        st = used if used else {st for _, st, _ in p.entries}
        dead = "fn dead_helper_%d() -> f32 { _ = pc; return 1.0; }\nfn dead_caller_%d() -> f32 { return dead_helper_%d(); }\n" % (k, k, k)
        out.append({"wgsl": EXTRA + p.render() + dead, "family": "dead_helper_mentions_pc", "opts": {}, "truth": (size, sorted(st))})
    # modules WITHOUT any resource binding whose push constant is used by a strict subset of the entry stages
    for k in range(8):
        p = W.pc_only_program(rng)
        ty, size = rng.choice(PC_TYPES)
        p.push_constant = (p.push_constant[0], ty)
        out.append({"wgsl": EXTRA + p.render(), "family": "pc_without_bindings", "opts": {}, "truth": (size, sorted(p.truth().get("pc", set())))})
    # the push constant is first used by an entry point declared after entry points of all three stages
    for k in range(8):
        p = W.late_pc_user_program(rng)
        ty, size = rng.choice(PC_TYPES)
        p.push_constant = (p.push_constant[0], ty)
        out.append({"wgsl": EXTRA + p.render(), "family": "late_user_after_all_stages", "opts": {}, "truth": (size, sorted(p.truth().get("pc", set())))})
    # one include path regenerated with other contents (with / without a push constant, another size), consecutively: the
    # range is that of the source given with THIS call
    for ty, size in (("vec4<f32>", 16), (None, 0), ("mat4x4<f32>", 64), (None, 0), ("f32", 4), ("vec4<f32>", 16)):
        w = ("var<push_constant> pc: %s;\n@fragment fn fs() -> @location(0) vec4<f32> { _ = pc; return vec4<f32>(0.0); }\n" % ty) if ty else \
            "@fragment fn fs() -> @location(0) vec4<f32> { return vec4<f32>(0.0); }\n"
        out.append({"wgsl": w, "family": "same_include_path", "opts": {}, "include": "shaders/pass.wgsl", "truth": (size, ["fragment"]) if ty else None})
    # a module without any entry point (an include-style file): the range is still there, for no stage
    for ty, size in rng.sample(PC_TYPES, 6):
        out.append({"wgsl": W.PRELUDE + EXTRA + "var<push_constant> pc: %s;\nfn helper() -> f32 { return 1.0; }\n" % ty,
                    "family": "pc_no_entry_points", "opts": {}, "truth": (size, [])})
    return out


def run_cases(plain, cases_, workdir, tag):
    return obs.attach(plain, cases_, workdir, tag, lambda c: True, 40 if "search" not in tag else 0)


def coq_obs_clause(r, real):
    """Coq-evaluated: Spec/Obs.v's reading of the extracted output (the ranges create_pipeline_layout hands to the device,
    PUSH_CONSTANT_STAGES resolved to the constant's value) = what the compiled module recorded on the shim"""
    o = r["obs"]
    pl = (o["device_log"].get("pipeline_layout") or {})
    ranges = pl.get("push_constant_ranges", [])
    bits = o.get("push_constant_stages")
    return "obs_pc_ok %s %s [%s]" % (real, "None" if bits is None else "(Some %d%%N)" % bits,
                                    "; ".join("(%d%%N, %d%%N, %d%%N)" % (x.get("stages", 0), x.get("start", 0), x.get("end", 0)) for x in ranges))


def verdict_expr(c, r, ir, real):
    ob = "true"
    if "obs" in r and r.get("result") == "ok":
        ok, why = obs.check_c13(c["truth"], r) if obs.usable(r) else (False, "module did not build / run on the shim: %s" % str(r.get("obs"))[:300])
        c["note"] = why
        ob = "true" if ok else "false"
        if obs.usable(r):
            ob += " && " + coq_obs_clause(r, real)
    return _verdict(c, r, ir, real).replace("OBS", ob)


def _verdict(c, r, ir, real):
    t = "None" if c["truth"] is None else "(Some (%d%%N, %s))" % (c["truth"][0], stages_term(c["truth"][1]))
    return ('[wf %s && pc_size_agrees %s && pc_layout_agrees %s; agree_res agree_C13 (gen %s ""%%string None %s) %s; '
            'on_ok %s (fun o => C13_ok %s o && pc_ranges_mult4 o && truth_pc_out_ok o %s) && OBS]'
            % (ir, ir, ir, ir, coq_options(c["opts"]), real, real, ir, t))


def verdict_expr_noout(c, r, ir):
    # the returned text does not match the templates any more: decide (b) by what the compiled module does
    ob = "true"
    if "obs" in r and r.get("result") == "ok":
        ok, why = obs.check_c13(c["truth"], r) if obs.usable(r) else (False, "module did not build / run on the shim: %s" % str(r.get("obs"))[:300])
        c["note"] = "extraction failed (%s); behaviour: %s" % (r.get("extract_err"), why)
        ob = "true" if ok else "false"
    return "[true; false; %s]" % ob


def nontrivial(c, r):
    return c["truth"] is not None and r.get("result") == "ok"
