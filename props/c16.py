"""C16 - embedded shader source is byte-identical to the input."""
import random

from common import coq_options, coq_string, run_batch, run_driver
import sink
import wgslgen as W

ID = "C16"
ENV_COMPARE = 30         # cases generated once more from a cargo build-script environment: same result (lib/runner.py)
REQUIRES = ["Agree", "StrLit"]
THEOREM_REQUIRES = ["C16"]
THEOREMS = ["C16_roundtrip", "C16_literal_wellformed", "C16_source_field", "C16_include_only_source", "C16_text", "C16_roundtrip_chars"]
PROOF_FILES = ["Spec/Escape.v", "Proofs/StrLitProof.v", "Properties/C16.v"]
RULE = ("valid shaders with comments / identifiers carrying quotes, backslashes, braces, CR, LF, CRLF, NUL and other C0/C1 "
        "controls, DEL, combining marks, RTL overrides, BOM, non-BMP characters, NUL followed by octal digits, very long "
        "lines; formatter on/off; embedded variant: the module is compiled against the recording shim and SOURCE is "
        "compared with include_bytes! of the original bytes by rustc, and the string handed to "
        "Device::create_shader_module is compared with the input; include variant: include paths over the same "
        "alphabet, extracted path compared with the given one, and include vs embedded outputs compared section by "
        "section; non-trivial = source or path contains a character that needs escaping; distinct = distinct texts")
ASSUMPTIONS = ["Escape.v models proc-macro2's escape_utf8 at the level of escape tokens; the character-level rendering of "
               "each token (\\u{HEX} ...) and rustc's lexing of it are exercised by the compiled SOURCE == include_bytes! "
               "comparison, not proved", "prettyplease / rustfmt copy literal tokens verbatim: observed"]
VERDICT_FIELDS = ["wf(true)", "a_extracted_source_equals_model_source", "b_rustc_value_and_device_string_equal_input"]

NASTY = ['"', '\\', '\\"', "{", "}", "{{", "}}", "\r", "\r\n", "\x00", "\x001", "\x007x", "\x01", "\x1b", "\x7f", "\x85", "\x9f",
         "́", "‏", "‮", "﻿", "\U0001F600", "\U0010FFFF", "é", "ß", "\t", "'", "\\n", "\\u{41}", "$", "#", "`", " ", " ",
         "\\0", "\\x00", "\x0b", "\x0c", "a" * 300]


def decorate(rng, src):
    lines = src.split("\n")
    for _ in range(rng.randint(1, 5)):
        i = rng.randrange(len(lines) + 1)
        junk = "".join(rng.choice(NASTY) for _ in range(rng.randint(1, 6)))
        if rng.random() < 0.5 and "\r" not in junk and "\n" not in junk and " " not in junk and " " not in junk \
                and "\x85" not in junk and "\x0b" not in junk and "\x0c" not in junk:
            lines.insert(i, "// " + junk)
        else:
            lines.insert(i, "/* " + junk.replace("*/", "* /") + " */")
    return "\n".join(lines)


def cases(rng, tier):
    n = {"quick": 60, "search": 150, "thorough": 400}[tier]
    out = []
    # eight DIFFERENT sources of more than 64 KiB, formatter on, generated at the same time by eight worker threads of one
    # process (the driver hands out chunks of four consecutive cases: every chunk starts with a large one): every SOURCE is
    # ITS input - whatever scratch space a call uses is its own
    small = W.random_program(rng).render()
    for k in range(8):
        pad = "\n".join("// variant %d line %04d %s" % (k, j, "x" * 40) for j in range(1150))
        out.append({"wgsl": W.random_program(rng).render() + pad + "\n// end of variant %d\n" % k, "family": "concurrent_large_rustfmt",
                    "opts": {"rustfmt": True}, "include": None, "light": True})
        for j in range(3):
            out.append({"wgsl": small + "// filler %d.%d\n" % (k, j), "family": "concurrent_filler", "opts": {"rustfmt": False}, "include": None, "light": True})
    # text that LOOKS like an escape sequence of a Rust string literal (a comment documenting escapes, a code point table):
    # it is ordinary text, every character of it belongs to the source
    for esc in ("\\u{6e}", "\\u{74}", "\\u{72}", "\\u{0030}", "\\u{22}", "\\u{27}", "\\u{5c}", "\\u{5C}", "\\u{006E}", "\\n", "\\x41", "\\u{1F600}",
                "\\\\u{6e}", "\\u{6e}\\u{74}"):
        out.append({"wgsl": small + "// escape table entry: %s (see the Rust reference)\n" % esc, "family": "escape_like_text",
                    "opts": {"rustfmt": False}, "include": None, "want_lit": True})
    # preprocessor-style variants of one source: same length, same first and last lines, generated one after the other
    # (the driver hands consecutive cases to the same worker thread): every SOURCE must be ITS input
    head = W.random_program(rng).render()
    tail = "\n".join("// trailing documentation line %d, identical in every variant" % k for k in range(6)) + "\n"
    for k in range(8):
        out.append({"wgsl": head + "const MODE: u32 = %du;\n" % (k + 1) + tail, "family": "same_length_variants",
                    "opts": {"rustfmt": False}, "include": None})
    for c_ in out:
        c_["want_lit"] = True
    for i in range(n):
        base = sink.sink(rng, n_consts=2)["wgsl"] if i % 2 else W.random_program(rng).render()
        src = decorate(rng, base)
        out.append({"wgsl": src, "family": "embedded", "opts": {"rustfmt": i % 4 == 0}, "include": None, "want_lit": True})
    big_pad = "\n".join("// padding line %d with some text to make the source long" % k for k in range(120))
    base = W.random_program(rng).render()
    out.append({"wgsl": (base + big_pad + "\n").replace("\n", "\r\n"), "family": "embedded_large_crlf", "opts": {"rustfmt": False}, "include": None})
    out.append({"wgsl": (base + big_pad + "\n// tail without newline").replace("\n", "\r\n"), "family": "embedded_large_crlf", "opts": {"rustfmt": True}, "include": None})
    uni = "".join(rng.choice(["é", "ß", "→", "名", "\U0001F600", "a", " "]) for _ in range(60))
    big_uni = "\n".join("// %s %d" % (uni, k) for k in range(900))
    out.append({"wgsl": base + big_uni + "\n", "family": "embedded_large_unicode", "opts": {"rustfmt": True}, "include": None})
    out.append({"wgsl": base + big_uni + "\n", "family": "embedded_large_unicode", "opts": {"rustfmt": False}, "include": None})
    paths = ["shader.wgsl", "dir/sub dir/shader.wgsl", "a\"b.wgsl", "back\\slash.wgsl", "{brace}.wgsl", "unié\U0001F600.wgsl",
             "tab\there.wgsl", "new\nline.wgsl", "nul\x00.wgsl", "nul\x007.wgsl", "quote'.wgsl", "../up/one.wgsl", "cr\rlf.wgsl",
             "‮rtl.wgsl", "", "env!(\"OUT_DIR\")", "concat!(\"a\", \"/b.wgsl\")", "concat!()", "include_str!(\"x\")", "r#\"raw\"#"]
    # include paths that name files which EXIST (relative to the working directory of the check, or absolute) with other
    # contents, also with validation on: the path is only ever copied into include_str!
    for i, p in enumerate(["DESIGN.md", "/verif/MANIFEST.json", "check", "coq/_CoqProject"]):
        base = W.random_program(rng).render()
        out.append({"wgsl": base, "family": "include_path", "opts": {"rustfmt": False, "validate": True}, "include": p, "want_lit": True})
        out.append({"wgsl": base, "family": "include_twin_embedded", "opts": {"rustfmt": False, "validate": True}, "include": None})
    for i, p in enumerate(paths):
        base = W.random_program(rng).render()
        out.append({"wgsl": base, "family": "include_path", "opts": {"rustfmt": i % 3 == 0}, "include": p, "want_lit": True})
        out.append({"wgsl": base, "family": "include_twin_embedded", "opts": {"rustfmt": i % 3 == 0}, "include": None})
    return out


FAULTY_FORMATTERS = {
    # whatever a failing formatter printed must not replace the module: SOURCE stays the input
    "status1_other_program": "#!/bin/sh\ncat >/dev/null\nprintf 'pub const SOURCE: &str = \"not the shader\";\\npub fn create_shader_module() {}\\n'\nexit 1\n",
    "killed_after_partial_output": "#!/bin/sh\nhead -c 400\ncat >/dev/null\nkill -9 $$\n",
}


def run_cases(plain, cases_, workdir, tag):
    emb = [p for p in plain if p["include"] is None]
    res_e, _ = run_batch(emb, workdir, tag + "_emb", real=False, shim=True)
    by_id = {r["id"]: r for r in res_e}
    # formatter on, formatter failing: two embedded cases are generated again under each failing formatter
    if "search" not in tag:
        import os, stat
        picked = [p for p in emb if by_id[p["id"]].get("result") == "ok" and len(p["wgsl"]) < 20000][:2]
        for name, script in FAULTY_FORMATTERS.items():
            d = os.path.join(workdir, "fmt_" + name)
            os.makedirs(d, exist_ok=True)
            fp = os.path.join(d, "rustfmt")
            open(fp, "w").write(script)
            os.chmod(fp, os.stat(fp).st_mode | stat.S_IXUSR | stat.S_IXGRP | stat.S_IXOTH)
            sub = [dict(p, opts=dict(p["opts"], rustfmt=True)) for p in picked]
            fres, _ = run_batch(sub, workdir, tag + "_" + name, real=False, shim=True, env={"PATH": d + ":" + os.environ.get("PATH", "")})
            for p, fr in zip(picked, fres):
                o = fr.get("obs") or {}
                if fr.get("result") != "ok" or o.get("source_matches") is not True:
                    by_id[p["id"]]["fault_failure"] = "with the formatter fault `%s` (rustfmt on): result %s, SOURCE == input: %s (%s)" % (
                        name, fr.get("result"), o.get("source_matches"), str(o.get("why"))[:200])
    inc = [p for p in plain if p["include"] is not None]
    for r in run_driver(inc, workdir, tag + "_inc"):
        by_id[r["id"]] = r
    res = [by_id[p["id"]] for p in plain]
    # include vs embedded twin: all sections but SOURCE equal (strip the source from the out term textually)
    for i, (c, r) in enumerate(zip(cases_, res)):
        if c["family"] == "include_path" and i + 1 < len(res):
            r["twin_out"] = res[i + 1].get("out")
    return res


def b_holds(c, r):
    if r.get("fault_failure"):
        c["note"] = r["fault_failure"]
        return False
    if r.get("result") != "ok":
        return True
    if c.get("include") is not None and "source_include_arg" in r:
        # read off the token stream of the returned text (no extractor involved): SOURCE = include_str!(<exactly the path>)
        arg = r["source_include_arg"] or {}
        if arg.get("literal") != c["include"]:
            c["note"] = "SOURCE is include_str!(%s), the path given was %r" % (arg, c["include"])
            return False
    if c["include"] is None:
        obs = r.get("obs") or {}
        if obs.get("obs", 1) is None:
            return False                         # module did not build against the shim
        dl = (obs.get("device_log") or {}).get("create_shader_module") or {}
        return obs.get("source_matches") is True and dl.get("source") == c["wgsl"]
    return True


def chars_clause(c, r):
    """Coq-evaluated, on the characters of the SOURCE literal as printed in the returned text: (a) they are what
    Spec/StrLit.v [literal_body] prints for the input (with the \\u{..} table read off the text itself), (b) the
    model of rustc's unescaping reads them back as the input"""
    lit = r.get("source_literal_chars")
    if lit is None or c.get("include") is not None or len(lit) > 30000:
        return "true", "true"
    src = [ord(ch) for ch in c["wgsl"]]
    # code points that appear as \u{..} in the printed literal
    nu, i = set(), 0
    text = "".join(chr(x) for x in lit)
    import re
    for mm in re.finditer(r"\\u\{([0-9a-fA-F]+)\}", text):
        # only count it when the backslash is not itself escaped (an even number of backslashes before it)
        j, n = mm.start() - 1, 0
        while j >= 0 and text[j] == "\\":
            n += 1
            j -= 1
        if n % 2 == 0:
            nu.add(int(mm.group(1), 16))
    nl = "[" + "; ".join("%d%%N" % x for x in sorted(nu)) + "]"
    sl = "[" + "; ".join("%d%%N" % x for x in src) + "]"
    ll = "[" + "; ".join("%d%%N" % x for x in lit) + "]"
    a = "list_eqb N.eqb (literal_body (fun c => existsb (N.eqb c) %s) %s) %s" % (nl, sl, ll)
    b = "match unescape %d %s with Some s => list_eqb N.eqb s %s | None => false end" % (len(lit) + 1, ll, sl)
    return a, b


def verdict_expr(c, r, ir, real):
    inc = "None" if c.get("include") is None else "(Some %s)" % coq_string(c["include"])
    extra = "true"
    if c["family"] == "include_path" and r.get("twin_out"):
        extra = ("match %s with Ok a => agree_but_source a %s | _ => false end" % (real, r["twin_out"]))
    # (b) for the include variant, on the real output alone: SOURCE is include_str! of exactly the given path, and
    # everything else equals the embedded twin
    b_inc = "true"
    if c.get("include") is not None:
        b_inc = ("match %s with Ok o => source_eqb (o_source o) (SrcInclude %s) && %s | _ => true end"
                 % (real, coq_string(c["include"]), extra.replace("match %s with Ok a =>" % real, "match Ok o with Ok a =>") if extra != "true" else "true"))
    ca, cb = chars_clause(c, r)
    return ('[true; agree_res (fun a b => source_eqb (o_source a) (o_source b)) (gen %s %s %s %s) %s && %s && %s; %s && %s && %s]'
            % (ir, coq_string(c["wgsl"]), inc, coq_options(c["opts"]), real, extra, ca, "true" if b_holds(c, r) else "false", b_inc, cb))


def verdict_expr_light(c, r):
    # concurrency families (sources of 70 KiB): rustc's SOURCE == include_bytes! comparison and the device string decide
    return '[true; true; %s]' % ("true" if b_holds(c, r) else "false")


def verdict_expr_noout(c, r, ir):
    # the SOURCE item could not be recognised by the extractor: decide with the compiled observation alone
    return '[true; false; %s]' % ("true" if b_holds(c, r) else "false")


def distinct_key(c, r):
    return (c["wgsl"], c.get("include"))


def nontrivial(c, r):
    t = c["wgsl"] + (c.get("include") or "")
    return r.get("result") == "ok" and any(ch in t for ch in '"\\\r\x00\x7f') or any(ord(ch) > 127 for ch in t)
