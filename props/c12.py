"""C12 - override constants (structure: fields, keys, required / optional entries)."""
from common import coq_options
import sink

ID = "C12"
REQUIRES = ["Agree", "C12Spec", "Truth"]
THEOREM_REQUIRES = ["C12"]
THEOREMS = ["C12_holds_bool"]
PROOF_FILES = ["Proofs/GenInv.v", "Proofs/Tactics.v", "Proofs/C12Proof.v", "Properties/C12.v"]
RULE = ("kitchen-sink shaders with 0..6 overrides over {bool,i32,u32,f32} x default? x @id?, defaults referring to other "
        "overrides, with vertex/fragment/compute entries using them; ground truth (fields, optionality, keys, bool "
        "conversion) computed in Python and compared with the real output; non-trivial = >= 2 overrides; distinct = "
        "distinct IR dumps")
ASSUMPTIONS = ["the values put in the map (x as f64 / 1.0 / 0.0) and naga's process_overrides accepting them are "
               "exercised in the compiled batch, not in this syntactic check"]


def cases(rng, tier):
    n = {"quick": 400, "search": 800, "thorough": 3000}[tier]
    out = []
    for i in range(n):
        s = sink.sink(rng, n_consts=0, n_overrides=rng.choice([0, 1, 2, 3, 4, 6]))
        out.append({"wgsl": s["wgsl"], "family": "overrides", "opts": {"rustfmt": i % 10 == 0}, "truth": s["overrides"]})
    return out


def verdict_expr(c, r, ir, real):
    t = sink.coq_overrides_truth(c["truth"])
    return ('[wf_overrides %s; agree_res agree_C12 (gen %s ""%%string None %s) %s; '
            'on_ok %s (fun o => C12_ok %s o && truth_overrides_ok o %s)]'
            % (ir, ir, coq_options(c["opts"]), real, real, ir, t))


def nontrivial(c, r):
    return len(c["truth"]) >= 2 and r.get("result") == "ok"
