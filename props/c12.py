"""C12 - override constants (structure: fields, keys, required / optional entries)."""
from common import coq_options, run_driver
import sink
import obs

ID = "C12"
ENV_RERUN = 40          # cases repeated from a cargo build-script environment (lib/runner.py with_build_env)
TABLES = ["scalar"]      # leaf tables compared exhaustively through the hooks (coq/Check/Tables.v)
REQUIRES = ["Agree", "C12Spec", "Truth", "ObsCheck"]
THEOREM_REQUIRES = ["C12"]
THEOREMS = ["C12_holds_bool", "C12_resolution"]
PROOF_FILES = ["Proofs/GenInv.v", "Proofs/Tactics.v", "Proofs/C12Proof.v", "Proofs/C12Resolve.v", "Properties/C12.v"]
RULE = ("kitchen-sink shaders with 0..6 overrides over {bool,i32,u32,f32} x default? x @id?, defaults referring to other "
        "overrides, with vertex/fragment/compute entries using them; ground truth (fields, optionality, keys, bool "
        "conversion) computed in Python and compared with the real output; non-trivial = >= 2 overrides; distinct = "
        "distinct IR dumps")
ASSUMPTIONS = ["behavioural level (40 modules with overrides per run): the generated module is compiled against the "
               "recording shim, OverrideConstants::constants() is called for 3 assignments each, the returned map is "
               "compared with ground truth and then handed to naga's real process_overrides (driver overrides), which "
               "must accept it and resolve every override to the assigned value / the WGSL default"]


def _variant(decl):
    return decl + "\n@fragment fn fs_main() -> @location(0) vec4<f32> { return vec4<f32>(f32(gain)); }\n"


# one include path regenerated after edits that keep the file's length: the override struct must describe the source
# given with THIS call (decl text, truth)
SAME_PATH = [
    ("@id(1) override gain: f32;", [{"name": "gain", "ty": "f32", "id": 1, "default": False, "dflt": None}]),
    ("@id(2) override gain: u32;", [{"name": "gain", "ty": "u32", "id": 2, "default": False, "dflt": None}]),
    ("@id(3) override gain: i32;", [{"name": "gain", "ty": "i32", "id": 3, "default": False, "dflt": None}]),
    ("override gain: f32 = 1.5; ", [{"name": "gain", "ty": "f32", "id": None, "default": True, "dflt": {"lit": 1.5}}]),
]


def cases(rng, tier):
    n = {"quick": 400, "search": 800, "thorough": 3000}[tier]
    out = []
    # a default that refers to an override declared LATER (naga orders overrides by dependency): key and field of each
    # override must stay together
    fw_truth = [{"name": "gain", "ty": "f32", "id": None, "default": True, "dflt": {"lit": 1.0}},
                {"name": "exposure", "ty": "f32", "id": 9, "default": True, "dflt": {"mul2": "gain"}},
                {"name": "bias", "ty": "i32", "id": None, "default": False, "dflt": None}]
    out.append({"wgsl": "@id(9) override exposure: f32 = gain * 2.0;\noverride gain: f32 = 1.0;\noverride bias: i32;\n"
                        "@fragment fn fs_main() -> @location(0) vec4<f32> { return vec4<f32>(exposure + f32(bias)); }\n",
                "family": "forward_reference", "opts": {}, "truth": fw_truth, "assignments": sink.override_assignments(rng, fw_truth)})
    for nreq in (33, 40):
        big = [{"name": "req%d" % i, "ty": ["f32", "u32", "i32", "bool"][i % 4], "id": (100 + i) if i % 3 == 0 else None,
                "default": False, "dflt": None} for i in range(nreq)]
        decls = "\n".join("%soverride %s: %s;" % ("@id(%d) " % t["id"] if t["id"] is not None else "", t["name"], t["ty"]) for t in big)
        out.append({"wgsl": decls + "\n@compute @workgroup_size(1) fn main() { _ = req0; }\n", "family": "many_required",
                    "opts": {}, "truth": big, "assignments": sink.override_assignments(rng, big)})
    for k in range(8):
        decl, truth = SAME_PATH[k % len(SAME_PATH)]
        out.append({"wgsl": _variant(decl), "family": "same_path_same_length", "opts": {}, "include": "gen/overrides.wgsl",
                    "truth": truth, "assignments": sink.override_assignments(rng, truth)})
    # overrides that size things (a workgroup dimension, the length of a workgroup array): fields, optionality and types are
    # those of the declarations, whatever the override is used for
    for k, (d1, d2) in enumerate((("override block_size = 64;", ("block_size", "i32", 64)), ("override block_size: i32 = 32;", ("block_size", "i32", 32)),
                                  ("override block_size: u32 = 48u;", ("block_size", "u32", 48)))):
        truth_ = [{"name": d2[0], "ty": d2[1], "id": None, "default": True, "dflt": {"lit": d2[2]}},
                  {"name": "tile", "ty": "u32", "id": None, "default": True, "dflt": {"lit": 16}},
                  {"name": "rows", "ty": "i32", "id": 5, "default": False, "dflt": None}]
        w = ("%s\noverride tile: u32 = 16u;\n@id(5) override rows: i32;\nvar<workgroup> scratch: array<f32, block_size>;\n"
             "@compute @workgroup_size(tile) fn main() { scratch[0] = f32(rows); }\n" % d1)
        out.append({"wgsl": w, "family": "overrides_that_size_things", "opts": {}, "truth": truth_,
                    "assignments": [{"block_size": 32, "tile": 8, "rows": 3}, {"block_size": None, "tile": None, "rows": 1},
                                    {"block_size": 128, "tile": None, "rows": -2}]})
    for i in range(n):
        s = sink.sink(rng, n_consts=0, n_overrides=rng.choice([0, 1, 2, 3, 4, 6]))
        out.append({"wgsl": s["wgsl"], "family": "overrides", "opts": {"rustfmt": i % 10 == 0}, "truth": s["overrides"],
                    "assignments": sink.override_assignments(rng, s["overrides"])})
    return out


def run_cases(plain, cases_, workdir, tag):
    res = obs.attach(plain, cases_, workdir, tag, lambda c: len(c["truth"]) >= 1, 40 if "search" not in tag else 0,
                     extra=lambda c: {"override_assignments": c["assignments"]})
    # hand every map the compiled module produced to naga's real override resolution
    jobs, where = [], []
    for i, r in enumerate(res):
        if "obs" in r and obs.usable(r):
            for j, run in enumerate(r["obs"].get("overrides") or []):
                if run.get("constants") is not None:
                    jobs.append({"id": len(jobs), "wgsl": cases_[i]["wgsl"], "constants": run["constants"]})
                    where.append((i, j))
    if jobs:
        out = run_driver(jobs, workdir, tag + "_ov", sub="overrides")
        for (i, j), o in zip(where, out):
            res[i].setdefault("ovres", {})[j] = o
    return res


def _obs(c, r):
    if not obs.usable(r):
        return False, "module did not build / run on the shim: %s" % str(r.get("obs"))[:300]
    ok, why = obs.check_c12(c["truth"], c["assignments"], r)
    if not ok:
        return ok, why
    ov = r.get("ovres", {})
    return obs.check_c12_resolved(c["truth"], c["assignments"], [ov.get(j, {}) for j in range(len(c["assignments"]))])


def _oval(ty, v):
    if ty == "bool":
        return "(VBool %s)" % ("true" if v else "false")
    if ty == "i32":
        return "(VI32 (%d)%%Z)" % int(v)
    if ty == "u32":
        return "(VU32 %d%%N)" % int(v)
    return "(VF32 %d%%N)" % obs._f32_bits(v)


def _observed_oval(ty, x):
    """the f64 the compiled module put into the map, read back as a value of the override's type; a value that is not
    the image of any value of that type is encoded so that it cannot match"""
    x = float(x)
    if ty == "bool" and x in (0.0, 1.0):
        return "(VBool %s)" % ("true" if x == 1.0 else "false")
    if ty == "i32" and x == int(x) and -2 ** 31 <= x < 2 ** 31:
        return "(VI32 (%d)%%Z)" % int(x)
    if ty == "u32" and x == int(x) and 0 <= x < 2 ** 32:
        return "(VU32 %d%%N)" % int(x)
    if ty == "f32" and obs._f32(x) == x:
        return "(VF32 %d%%N)" % obs._f32_bits(x)
    import struct
    return "(VF64 %d%%N)" % struct.unpack("<Q", struct.pack("<d", x))[0]


def coq_obs_clause(c, r, real):
    """Coq-evaluated: Overrides.constants_map of the extracted output, applied to each struct value the harness used,
    equals the map the compiled constants() returned"""
    runs = (r.get("obs") or {}).get("overrides") or []
    if not c["truth"] or len(runs) != len(c["assignments"]):
        return "true"
    by_key = {(str(t["id"]) if t["id"] is not None else t["name"]): t for t in c["truth"]}
    parts = []
    for a, run in zip(c["assignments"], runs):
        consts = run.get("constants")
        if consts is None:
            return "false"
        al = "; ".join("(%s, %s)" % (sink._cs(t["name"]), "None" if a.get(t["name"]) is None else "(Some %s)" % _oval(t["ty"], a[t["name"]]))
                       for t in c["truth"])
        ol = []
        for k, x in sorted(consts.items()):
            t = by_key.get(k)
            ol.append("(%s, %s)" % (sink._cs(k), _observed_oval(t["ty"], x) if t else "(VF64 0%N)"))
        parts.append("obs_constants_ok %s [%s] [%s]" % (real, al, "; ".join(ol)))
    return " && ".join(parts) if parts else "true"


def verdict_expr(c, r, ir, real):
    ob = "true"
    if "obs" in r and r.get("result") == "ok":
        ok, why = _obs(c, r)
        c["note"] = why
        ob = "true" if ok else "false"
        if obs.usable(r):
            ob += " && " + coq_obs_clause(c, r, real)
    t = sink.coq_overrides_truth(c["truth"])
    return ('[wf_overrides %s; agree_res agree_C12 (gen %s ""%%string None %s) %s; '
            'on_ok %s (fun o => C12_ok %s o && truth_overrides_ok o %s) && %s]'
            % (ir, ir, coq_options(c["opts"]), real, real, ir, t, ob))


def verdict_expr_noout(c, r, ir):
    ob = "true"
    if "obs" in r and r.get("result") == "ok":
        ok, why = _obs(c, r)
        c["note"] = "extraction failed (%s); behaviour: %s" % (r.get("extract_err"), why)
        ob = "true" if ok else "false"
    return "[true; false; %s]" % ob


def nontrivial(c, r):
    return len(c["truth"]) >= 2 and r.get("result") == "ok"
