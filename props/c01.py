"""C01 - the generated module is complete Rust that compiles against wgpu 24."""
import glob
import os

from common import REPO, coq_options, run_batch
import sink
import structcases
import structgen
import wgslgen as W
import c04

ID = "C01"
WANT_TOKS = True
REQUIRES = ["Agree", "C01Spec", "C07Premise"]
THEOREM_REQUIRES = ["C01"]
THEOREMS = ["C01_holds_partial", "C01_holds_structure", "C01_holds"]
PROOF_FILES = ["Proofs/C01Proof.v", "Proofs/C06Named.v", "Proofs/C07Comp.v", "Proofs/C01More.v", "Proofs/SortDedup.v", "Proofs/C01Full.v", "Properties/C01.v"]
RULE = ("every accepted module is compiled for real: `cargo check` of a scratch crate holding all generated modules "
        "against wgpu 24.0.5 + bytemuck + encase + glam + serde (+ a local nalgebra stub); families: kitchen-sink "
        "(constants, overrides, entry points of all stages, vertex inputs, fragment outputs), struct programs x derive "
        "switches x representations (incl. a family biased towards structs that play several roles at once), call-graph programs with every resource kind, sparse bind groups, the repository's "
        "own fixture shaders, identifier stress (non-ASCII, case variants, names of template items); every fourth case "
        "with rustfmt and with validation; non-trivial = module compiled (generator returned Ok); distinct = distinct "
        "(IR, options)")
ASSUMPTIONS = ["permitted compile failures are recognised by rustc error code E0080 with the generator's own assertion "
               "text ('does not match WGSL') or bytemuck's 'derive(Pod) was applied to a type with padding'",
               "nalgebra is a local stub crate (not in the offline registry): claims about the Nalgebra representation "
               "are against the stub", "edition 2021 scratch crate"]
VERDICT_FIELDS = ["wf", "a_model_agrees_on_whole_output", "b_compiles_or_permitted_rejection",
                  "kf1_keyword_identifier", "kf2_duplicate_item_names", "kf3_vertex_struct_not_emitted",
                  "kf4_vertex_param_clash", "kf5_derive_bound_not_met", "kf6_user_type_captures_template_name",
                  "kf7_constant_named_like_a_template_binding"]

PERMITTED = ("does not match WGSL", "derive(Pod) was applied to a type with padding")


def permitted(diags):
    return bool(diags) and all(d.get("code") == "E0080" and any(p in (d.get("message") or "") for p in PERMITTED)
                               for d in diags)


def fixture_cases():
    out = []
    for f in sorted(glob.glob(REPO + "/wgsl_to_wgpu/src/data/**/*.wgsl", recursive=True)) + sorted(glob.glob(REPO + "/example/src/*.wgsl")):
        src = open(f).read()
        for o in ({"mv": "Rust"}, {"mv": "Glam", "encase": True, "bm_vertex": True}, {"mv": "Nalgebra", "serde": True}):
            out.append({"wgsl": src, "family": "fixture", "opts": dict(o)})
    return out


def cases(rng, tier):
    scale = {"quick": 1, "search": 2, "thorough": 8}[tier]
    out = fixture_cases()
    for i in range(30 * scale):
        s = sink.sink(rng, wg_overrides=True)
        o = rng.choice(structcases.ALL_OPTS)
        out.append({"wgsl": s["wgsl"], "family": "sink", "opts": dict(o)})
    for c in structcases.cases(rng, "quick", nbase=14 * scale, square_mats_only=False, huge_arrays=True):
        out.append({"wgsl": c["wgsl"], "family": "structs", "opts": c["opts"]})
    # structs playing several roles at once (entry result + member of a host struct, vertex input + storage element ...)
    roles, nested_result = [], 0
    for _ in range(20):
        roles = structcases.cases(rng, "quick", nbase=8 * scale, square_mats_only=False, roles_bias=True)
        nested_result = sum(1 for c in roles if "WrapsOut" in c["wgsl"] and "-> FOut" in c["wgsl"])
        if nested_result >= 6:       # >= 2 programs (x 3 option sets) where an entry result is nested in a host struct
            break
    for c in roles:
        out.append({"wgsl": c["wgsl"], "family": "struct_roles", "opts": c["opts"]})
    for i in range(25 * scale):
        p = W.random_program(rng, pc=(i % 3 == 0))
        out.append({"wgsl": p.render(), "family": "call_graph", "opts": dict(rng.choice(structcases.ALL_OPTS))})
    for c in c04.cases(rng, "quick")[:: max(1, 40 // scale)][: 12 * scale]:
        out.append({"wgsl": c["wgsl"], "family": "bind_groups", "opts": {}})
    # constants named like the identifiers the template binds (known finding KF-C01-const-captures-binding) and, as a
    # control, the same names in other letter cases (must compile)
    for nm, rest in (("device", ""), ("entries", "override k: f32 = 1.0;"), ("value", "override k: f32 = 1.0;"),
                     ("targets", ""), ("module", ""), ("Device", ""), ("SOURCE_", ""), ("Entries", "override k: f32 = 1.0;")):
        out.append({"wgsl": "const %s: u32 = 7u;\n%s\n@fragment fn fs() -> @location(0) vec4<f32> { return vec4<f32>(0.0); }\n" % (nm, rest),
                    "family": "binder_names", "opts": {}})
    # host-shareable structs around and above 64 KiB under the plain-data derives (whatever a struct derives, it derives
    # everything those derives need); lengths bytemuck implements Pod for
    for decl, o in (("array<vec4<f32>, 4096>", {"bm_host": True}), ("array<mat4x4<f32>, 2048>", {"bm_host": True}),
                    ("array<mat4x4<f32>, 4096>", {"bm_host": True, "bm_vertex": True}), ("array<vec4<u32>, 4096>", {"bm_host": True, "serde": False, "mv": "Glam"})):
        out.append({"wgsl": "struct BigTable { rows: %s }\n@group(0) @binding(0) var<storage, read> big_table: BigTable;\n"
                            "@compute @workgroup_size(1) fn main() { _ = big_table.rows[0]; }\n" % decl, "family": "large_host_struct", "opts": dict(o)})
    # every storage texture format of WGSL in one module: each names a TextureFormat variant of wgpu 24
    fmts = ["rgba8unorm", "rgba8snorm", "rgba8uint", "rgba8sint", "rgba16uint", "rgba16sint", "rgba16float", "r32uint", "r32sint", "r32float",
            "rg32uint", "rg32sint", "rg32float", "rgba32uint", "rgba32sint", "rgba32float", "bgra8unorm", "r8unorm", "r8snorm", "r8uint", "r8sint",
            "r16uint", "r16sint", "r16float", "rg8unorm", "rg8snorm", "rg8uint", "rg8sint", "rg16uint", "rg16sint", "rg16float", "rgb10a2uint",
            "rgb10a2unorm", "rg11b10float", "r16unorm", "r16snorm", "rg16unorm", "rg16snorm", "rgba16unorm", "rgba16snorm"]
    w = "".join("@group(%d) @binding(%d) var st_%s: texture_storage_2d<%s, write>;\n" % (k // 16, k % 16, f_, f_) for k, f_ in enumerate(fmts))
    out.append({"wgsl": w + "@compute @workgroup_size(1) fn main() { _ = textureDimensions(st_rgba8unorm); }\n", "family": "all_storage_formats", "opts": {}})
    # bindings of ONE group whose names are equal up to the naming convention: different variables, different fields
    for names_ in (("baseColor", "base_color"), ("shadowMap", "shadow_map", "ShadowMap"), ("uTime", "u_time", "utime")):
        w = "".join("@group(0) @binding(%d) var<uniform> %s: vec4<f32>;\n" % (k, n_) for k, n_ in enumerate(names_))
        w += "@fragment fn fs_main() -> @location(0) vec4<f32> { return %s; }\n" % " + ".join(names_)
        out.append({"wgsl": w, "family": "names_equal_up_to_convention", "opts": {}})
    for c in out:
        if c["opts"].get("mv") == "Nalgebra" and c["opts"].get("encase"):
            c["opts"]["encase"] = False      # encase's nalgebra impls need the real nalgebra crate (not available offline)
    for i, c in enumerate(out):
        c["opts"]["rustfmt"] = (i % 4 == 1)
        c["opts"]["validate"] = (i % 4 == 2)
        if i % 9 == 0:
            c["include"] = "shaders/case_%d.wgsl" % i
        c["want_toks"] = True      # whole-text correspondence: tokens of the returned text = Render.render of the model's output
    return out


FAULTY_FORMATTERS = {
    # a formatter that prints part of the program and fails: the returned text must still be the complete module
    "status1_partial_output": "#!/bin/sh\nhead -c 700\ncat >/dev/null\nexit 1\n",
    "killed_partial_output": "#!/bin/sh\nhead -c 300\ncat >/dev/null\nkill -9 $$\n",
    "status1_chatty": "#!/bin/sh\ncat >/dev/null\nprintf 'error: expected item\\n --> <stdin>:1:1\\n  |\\n' >&2\nexit 1\n",
}


def run_cases(plain, cases_, workdir, tag):
    res, summary = run_batch(plain, workdir, tag, real=True, shim=False)
    # "under every combination of write options": the rustfmt option with a formatter that fails must still return a
    # module that compiles - three accepted rustfmt cases are generated again under each failing formatter
    idx = [i for i, (c, r) in enumerate(zip(cases_, res)) if c["opts"].get("rustfmt") and r.get("compile") == "ok"][:3]
    if idx and "search" not in tag:
        import os, stat
        for name, script in FAULTY_FORMATTERS.items():
            d = os.path.join(workdir, "fmt_" + name)
            os.makedirs(d, exist_ok=True)
            p_ = os.path.join(d, "rustfmt")
            open(p_, "w").write(script)
            os.chmod(p_, os.stat(p_).st_mode | stat.S_IXUSR | stat.S_IXGRP | stat.S_IXOTH)
            sub = [dict(plain[i]) for i in idx]
            fres, _ = run_batch(sub, workdir, tag + "_" + name, real=True, shim=False, env={"PATH": d + ":" + os.environ.get("PATH", "")})
            for i, fr in zip(idx, fres):
                if fr.get("result") != "ok" or fr.get("compile") != "ok":
                    res[i]["fault_failure"] = "with the formatter fault `%s`: result %s, compile %s: %s" % (
                        name, fr.get("result"), fr.get("compile"), str(fr.get("diagnostics"))[:400])
    return res


KF_PREDS = (
    'existsb is_keyword (out_idents o)',
    'negb (str_nodup (type_names o)) || negb (str_nodup (value_names o)) || negb (str_nodup (flat_map (fun c => [cp_wg_const c; cp_fn c]) (o_compute o)))',
    'kf_vertex_struct_is_result IR',        # decided on the shader (the cause), not on the output
    'negb (forallb (fun v => str_nodup (ve_params v ++ (if ve_ov_param v then ["overrides"%string] else []))) (o_ventries o))',
    'negb (forallb struct_bounds_ok (o_structs o))',
    'existsb (fun n => existsb (String.eqb n) prelude_names) (map s_name (o_structs o))',
    'const_captures_binder o',
)


def _compiles(c, r):
    if r.get("fault_failure"):
        c["note"] = r["fault_failure"]
        return False
    comp = r.get("compile")
    b = (comp == "ok") or (comp == "errors" and permitted(r.get("diagnostics")))
    if r.get("result") != "ok":
        b = True        # the property quantifies over accepted shaders
    return b


def _model(c, r, ir):
    o = coq_options(c["opts"])
    inc = "None" if c.get("include") is None else '(Some "%s"%%string)' % c["include"]
    src = '"' + c["wgsl"].replace('"', '""') + '"%string'
    gatef = "gate %s %s" % ("true" if c["opts"].get("validate") else "false", "false" if r.get("valid") is False else "true")
    return "(%s (gen %s %s %s %s))" % (gatef, ir, src, inc, o)


def verdict_expr(c, r, ir, real):
    # the known-finding classes are decided on the MODEL's output (what the unchanged generator emits for this shader:
    # the cause), not on the returned text (the symptom): a module that fails to compile for a reason the model does
    # not predict is a violation even if it looks like a listed class
    kfs = "; ".join("on_out %s (fun o => %s)" % (_model(c, r, ir), p.replace("IR", ir)) for p in KF_PREDS)
    tk = (" && tokens_agree %s toks_%d" % (_model(c, r, ir), c["id"])) if c.get("want_toks") else ""
    return "[wf %s && wf_member_names %s && wf_override_names %s; agree_res out_eqb %s %s%s; %s; %s]" % (
        ir, ir, ir, _model(c, r, ir), real, tk, "true" if _compiles(c, r) else "false", kfs)


def verdict_expr_noout(c, r, ir):
    """The returned text was not recognised by the extractor. Either it is not Rust at all (a keyword used as an
    identifier: the model predicts that, clause (a) holds, and it certainly does not compile) or a template changed
    (correspondence broken: (a) false); in both cases rustc decides (b), and the known-finding classes are decided on
    the MODEL's output, which still describes what this generator means to emit."""
    not_rust = "syn::parse_file failed" in str(r.get("extract_err"))
    mo = _model(c, r, ir)
    tk = (" && tokens_agree %s toks_%d" % (mo, c["id"])) if c.get("want_toks") else ""
    a = ("ir_has_keyword %s%s" % (ir, tk)) if not_rust else "false"
    kfs = ["on_out %s (fun o => %s)" % (mo, p.replace("IR", ir)) for p in KF_PREDS]
    kfs[0] = "(%s || ir_has_keyword %s)" % (kfs[0], ir)
    return "[wf %s; %s; %s; %s]" % (ir, a, "true" if _compiles(c, r) else "false", "; ".join(kfs))


def nontrivial(c, r):
    return r.get("result") == "ok"


def extra_coverage(recs):
    comp = {}
    perm = 0
    for r in recs:
        k = r["res"].get("compile")
        comp[str(k)] = comp.get(str(k), 0) + 1
        if k == "errors" and permitted(r["res"].get("diagnostics")):
            perm += 1
    return {"compile_outcomes": comp, "permitted_rejections": perm}
