//! Stand-in for the two `nalgebra` types the generator can name:
//! `nalgebra::SVector<T, N>` and `nalgebra::SMatrix<T, R, C>`.
//!
//! Storage is column-major like the real crate (`ArrayStorage<T, R, C>([[T; R]; C])`),
//! `#[repr(C)]`, so size and alignment equal those of `[[T; R]; C]`.
//! No `encase` impls on purpose: encase + nalgebra is expected not to compile.

use core::fmt;

#[repr(C)]
pub struct SMatrix<T, const R: usize, const C: usize>(pub [[T; R]; C]);

pub type SVector<T, const N: usize> = SMatrix<T, N, 1>;

impl<T, const R: usize, const C: usize> SMatrix<T, R, C> {
    /// Builds a matrix from its columns.
    pub const fn from_columns(columns: [[T; R]; C]) -> Self {
        Self(columns)
    }
}

impl<T: Copy, const R: usize, const C: usize> SMatrix<T, R, C> {
    /// Column-major iteration, like `nalgebra::Matrix::iter`.
    pub fn iter(&self) -> impl Iterator<Item = &T> + '_ {
        self.0.iter().flat_map(|c| c.iter())
    }
}

impl<T: fmt::Debug, const R: usize, const C: usize> fmt::Debug for SMatrix<T, R, C> {
    fn fmt(&self, f: &mut fmt::Formatter<'_>) -> fmt::Result {
        self.0.fmt(f)
    }
}

impl<T: Clone, const R: usize, const C: usize> Clone for SMatrix<T, R, C> {
    fn clone(&self) -> Self {
        Self(self.0.clone())
    }
}

impl<T: Copy, const R: usize, const C: usize> Copy for SMatrix<T, R, C> {}

impl<T: PartialEq, const R: usize, const C: usize> PartialEq for SMatrix<T, R, C> {
    fn eq(&self, other: &Self) -> bool {
        self.0 == other.0
    }
}

impl<T: Eq, const R: usize, const C: usize> Eq for SMatrix<T, R, C> {}

// SAFETY: repr(C) wrapper around `[[T; R]; C]`, which is Zeroable / Pod whenever `T` is
// (arrays of Pod have no padding).
unsafe impl<T: bytemuck::Zeroable, const R: usize, const C: usize> bytemuck::Zeroable
    for SMatrix<T, R, C>
{
}
unsafe impl<T: bytemuck::Pod, const R: usize, const C: usize> bytemuck::Pod for SMatrix<T, R, C> {}

// Serialised like the real crate does for statically sized matrices: a flat sequence of
// R*C elements in column-major order.
impl<T: serde::Serialize, const R: usize, const C: usize> serde::Serialize for SMatrix<T, R, C> {
    fn serialize<S: serde::Serializer>(&self, serializer: S) -> Result<S::Ok, S::Error> {
        use serde::ser::SerializeTuple;
        let mut seq = serializer.serialize_tuple(R * C)?;
        for column in &self.0 {
            for value in column {
                seq.serialize_element(value)?;
            }
        }
        seq.end()
    }
}

impl<'de, T: serde::Deserialize<'de>, const R: usize, const C: usize> serde::Deserialize<'de>
    for SMatrix<T, R, C>
{
    fn deserialize<D: serde::Deserializer<'de>>(deserializer: D) -> Result<Self, D::Error> {
        struct V<T, const R: usize, const C: usize>(core::marker::PhantomData<T>);
        impl<'de, T: serde::Deserialize<'de>, const R: usize, const C: usize> serde::de::Visitor<'de>
            for V<T, R, C>
        {
            type Value = SMatrix<T, R, C>;
            fn expecting(&self, f: &mut fmt::Formatter<'_>) -> fmt::Result {
                write!(f, "a sequence of {} elements", R * C)
            }
            fn visit_seq<A: serde::de::SeqAccess<'de>>(self, mut seq: A) -> Result<Self::Value, A::Error> {
                let mut flat: Vec<T> = Vec::with_capacity(R * C);
                while let Some(v) = seq.next_element::<T>()? {
                    flat.push(v);
                }
                if flat.len() != R * C {
                    return Err(serde::de::Error::invalid_length(flat.len(), &self));
                }
                let mut it = flat.into_iter();
                let columns: [[T; R]; C] =
                    core::array::from_fn(|_| core::array::from_fn(|_| it.next().unwrap()));
                Ok(SMatrix(columns))
            }
        }
        deserializer.deserialize_tuple(R * C, V::<T, R, C>(core::marker::PhantomData))
    }
}
