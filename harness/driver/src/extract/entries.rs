//! Vertex input impls, compute module, entry constants, vertex/fragment entry
//! helpers, shader source, push constants, pipeline layout.

use super::bindgroups::{stages, suffix_no};
use super::{stage_err, R};
use crate::coqfmt::{app, b, list, n, pair, s, triple};
use crate::tokpat::{concat, is_exact, mt, show, split_commas};
use proc_macro2::{Delimiter, TokenTree as TT};

const VERTEX_IMPL: &str = "impl $S {
    pub const VERTEX_ATTRIBUTES : [wgpu :: VertexAttribute ; $n] = $attrs ;
    pub const fn vertex_buffer_layout (step_mode : wgpu :: VertexStepMode) -> wgpu :: VertexBufferLayout < 'static > {
        wgpu :: VertexBufferLayout {
            array_stride : std :: mem :: size_of :: < $S2 > () as u64 ,
            step_mode ,
            attributes : & $S3 :: VERTEX_ATTRIBUTES
        }
    }
}";

/// `impl X { pub const VERTEX_ATTRIBUTES .. pub const fn vertex_buffer_layout .. }` -> `out_vstruct`
pub fn vertex_impl(toks: &[TT]) -> R<String> {
    let c = mt(VERTEX_IMPL, toks).map_err(|e| stage_err("vertex input impl", e))?;
    let name = c.ident("S")?;
    let ctx = format!("impl {}", name);
    let mut attrs = Vec::new();
    for a in split_commas(&c.group("attrs", Delimiter::Bracket)?) {
        let ca = mt(
            "wgpu :: VertexAttribute { format : wgpu :: VertexFormat :: $fmt , offset : std :: mem :: offset_of ! $a as u64 , shader_location : $loc }",
            &a,
        )
        .map_err(|e| stage_err(&format!("{}: vertex attribute", ctx), e))?;
        let inner = ca.group("a", Delimiter::Parenthesis)?;
        let co = mt("$S , $[f]", &inner).map_err(|e| stage_err(&format!("{}: offset_of!", ctx), e))?;
        attrs.push(app(
            "mkOutVAttr",
            &[
                s(&ca.ident("fmt")?),
                s(&co.ident("S")?),
                s(&concat(co.many("f"))),
                n(ca.int("loc")?),
            ],
        ));
    }
    Ok(app(
        "mkOutVStruct",
        &[
            s(&name),
            n(c.int("n")?),
            list(attrs),
            s(&c.ident("S2")?),
            s(&c.ident("S3")?),
        ],
    ))
}

const COMPUTE_FN: &str = "pub fn $f (device : & wgpu :: Device) -> wgpu :: ComputePipeline {
    let module = super :: create_shader_module (device) ;
    let layout = super :: create_pipeline_layout (device) ;
    device . create_compute_pipeline (& wgpu :: ComputePipelineDescriptor {
        label : Some ($label) ,
        layout : Some (& layout) ,
        module : & module ,
        entry_point : Some ($ep) ,
        compilation_options : Default :: default () ,
        cache : Default :: default ()
    })
}";

/// Items of `pub mod compute` -> list of `out_compute`.
pub fn compute_mod(items: &[Vec<TT>]) -> R<Vec<String>> {
    if items.is_empty() || items.len() % 2 != 0 {
        return Err(format!(
            "mod compute: expected a non-empty sequence of (const, fn) pairs, found {} items",
            items.len()
        ));
    }
    let mut out = Vec::new();
    for p in items.chunks(2) {
        let c1 = mt("pub const $c : [u32 ; 3] = [$x , $y , $z] ;", &p[0])
            .map_err(|e| stage_err("mod compute: workgroup size constant", e))?;
        let c2 = mt(COMPUTE_FN, &p[1]).map_err(|e| stage_err("mod compute: pipeline fn", e))?;
        out.push(app(
            "mkOutCompute",
            &[
                s(&c1.ident("c")?),
                triple(&n(c1.int("x")?), &n(c1.int("y")?), &n(c1.int("z")?)),
                s(&c2.ident("f")?),
                s(&c2.string("label")?),
                s(&c2.string("ep")?),
            ],
        ));
    }
    Ok(out)
}

/// `pub const ENTRY_X: &str = "..";` -> `(ident, value)`
pub fn entry_const(toks: &[TT]) -> R<String> {
    let c = mt("pub const $name : & str = $v ;", toks).map_err(|e| stage_err("entry constant", e))?;
    Ok(pair(&s(&c.ident("name")?), &s(&c.string("v")?)))
}

pub const VERTEX_ENTRY_STRUCT: &str = "# [derive (Debug)]
pub struct VertexEntry < const N : usize > {
    pub entry_point : & 'static str ,
    pub buffers : [wgpu :: VertexBufferLayout < 'static > ; N] ,
    pub constants : std :: collections :: HashMap < String , f64 >
}";

pub const VERTEX_STATE_FN: &str = "pub fn vertex_state < 'a , const N : usize > (
    module : & 'a wgpu :: ShaderModule ,
    entry : & 'a VertexEntry < N >
) -> wgpu :: VertexState < 'a > {
    wgpu :: VertexState {
        module ,
        entry_point : Some (entry . entry_point) ,
        buffers : & entry . buffers ,
        compilation_options : wgpu :: PipelineCompilationOptions {
            constants : & entry . constants ,
            .. Default :: default ()
        }
    }
}";

pub const FRAGMENT_ENTRY_STRUCT: &str = "# [derive (Debug)]
pub struct FragmentEntry < const N : usize > {
    pub entry_point : & 'static str ,
    pub targets : [Option < wgpu :: ColorTargetState > ; N] ,
    pub constants : std :: collections :: HashMap < String , f64 >
}";

pub const FRAGMENT_STATE_FN: &str = "pub fn fragment_state < 'a , const N : usize > (
    module : & 'a wgpu :: ShaderModule ,
    entry : & 'a FragmentEntry < N >
) -> wgpu :: FragmentState < 'a > {
    wgpu :: FragmentState {
        module ,
        entry_point : Some (entry . entry_point) ,
        targets : & entry . targets ,
        compilation_options : wgpu :: PipelineCompilationOptions {
            constants : & entry . constants ,
            .. Default :: default ()
        }
    }
}";

fn constants_expr(toks: &[TT]) -> R<bool> {
    if is_exact("overrides . constants ()", toks).is_ok() {
        Ok(true)
    } else if is_exact("Default :: default ()", toks).is_ok() {
        Ok(false)
    } else {
        Err(format!("unknown `constants:` expression `{}`", show(toks)))
    }
}

/// `pub fn <e>_entry(<p>: wgpu::VertexStepMode, .., [overrides: &OverrideConstants]) -> VertexEntry<n> {..}`
pub fn vertex_entry(toks: &[TT]) -> R<String> {
    let c = mt(
        "pub fn $f $params -> VertexEntry < $n > { VertexEntry { entry_point : $c , buffers : $bufs , constants : $[k] } }",
        toks,
    )
    .map_err(|e| stage_err("vertex entry fn", e))?;
    let name = c.ident("f")?;
    let ctx = format!("fn {}", name);
    let params = split_commas(&c.group("params", Delimiter::Parenthesis)?);
    let mut step_params = Vec::new();
    let mut ov_param = false;
    for (i, p) in params.iter().enumerate() {
        if let Ok(cp) = mt("$p : wgpu :: VertexStepMode", p) {
            step_params.push(s(&cp.ident("p")?));
        } else if i + 1 == params.len() && is_exact("overrides : & OverrideConstants", p).is_ok() {
            ov_param = true;
        } else {
            return Err(format!("{}: unexpected parameter `{}`", ctx, show(p)));
        }
    }
    let mut buffers = Vec::new();
    for e in split_commas(&c.group("bufs", Delimiter::Bracket)?) {
        let cb = mt("$S :: vertex_buffer_layout ($p)", &e)
            .map_err(|er| stage_err(&format!("{}: buffers", ctx), er))?;
        buffers.push(pair(&s(&cb.ident("S")?), &s(&cb.ident("p")?)));
    }
    Ok(app(
        "mkOutVEntry",
        &[
            s(&name),
            s(&c.ident("c")?),
            list(step_params),
            list(buffers),
            n(c.int("n")?),
            b(ov_param),
            b(constants_expr(c.many("k")).map_err(|e| stage_err(&ctx, e))?),
        ],
    ))
}

/// `pub fn <e>_entry(targets: [Option<wgpu::ColorTargetState>; t], [overrides: &OverrideConstants]) -> FragmentEntry<n> {..}`
pub fn fragment_entry(toks: &[TT]) -> R<String> {
    let c = mt(
        "pub fn $f $params -> FragmentEntry < $n > { FragmentEntry { entry_point : $c , targets , constants : $[k] } }",
        toks,
    )
    .map_err(|e| stage_err("fragment entry fn", e))?;
    let name = c.ident("f")?;
    let ctx = format!("fn {}", name);
    let params = split_commas(&c.group("params", Delimiter::Parenthesis)?);
    let (first, rest) = params
        .split_first()
        .ok_or_else(|| format!("{}: no parameters", ctx))?;
    let ct = mt("targets : [Option < wgpu :: ColorTargetState > ; $t]", first)
        .map_err(|e| stage_err(&format!("{}: targets parameter", ctx), e))?;
    let ov_param = match rest {
        [] => false,
        [p] if is_exact("overrides : & OverrideConstants", p).is_ok() => true,
        _ => {
            return Err(format!(
                "{}: unexpected parameters `{}`",
                ctx,
                show(&c.group("params", Delimiter::Parenthesis)?)
            ))
        }
    };
    Ok(app(
        "mkOutFEntry",
        &[
            s(&name),
            s(&c.ident("c")?),
            n(ct.int("t")?),
            n(c.int("n")?),
            b(ov_param),
            b(constants_expr(c.many("k")).map_err(|e| stage_err(&ctx, e))?),
        ],
    ))
}

/// `pub const SOURCE: &str = "lit" | include_str!("p");` -> `out_source`
pub fn source(toks: &[TT]) -> R<String> {
    let c = mt("pub const SOURCE : & str = $[v] ;", toks).map_err(|e| stage_err("const SOURCE", e))?;
    let v = c.many("v");
    if let Ok(ci) = mt("include_str ! ($p)", v) {
        return Ok(app("SrcInclude", &[s(&ci.string("p")?)]));
    }
    let value = crate::tokpat::tokens_string(v).map_err(|e| stage_err("const SOURCE", e))?;
    Ok(app("SrcEmbedded", &[s(&value)]))
}

pub const CREATE_SHADER_MODULE: &str = "pub fn create_shader_module (device : & wgpu :: Device) -> wgpu :: ShaderModule {
    let source = std :: borrow :: Cow :: Borrowed (SOURCE) ;
    device . create_shader_module (wgpu :: ShaderModuleDescriptor {
        label : None ,
        source : wgpu :: ShaderSource :: Wgsl (source)
    })
}";

/// `pub const PUSH_CONSTANT_STAGES: wgpu::ShaderStages = <expr>;` -> `stages`
pub fn pc_stages(toks: &[TT]) -> R<String> {
    let c = mt("pub const PUSH_CONSTANT_STAGES : wgpu :: ShaderStages = $[e] ;", toks)
        .map_err(|e| stage_err("const PUSH_CONSTANT_STAGES", e))?;
    stages(c.many("e")).map_err(|e| stage_err("const PUSH_CONSTANT_STAGES", e))
}

/// `create_pipeline_layout` -> (`o_pl_groups`, `o_pc_ranges`)
pub fn pipeline_layout(toks: &[TT]) -> R<(Vec<String>, Vec<String>)> {
    let c = mt(
        "pub fn create_pipeline_layout (device : & wgpu :: Device) -> wgpu :: PipelineLayout {
            device . create_pipeline_layout (& wgpu :: PipelineLayoutDescriptor {
                label : None ,
                bind_group_layouts : & $bgl ,
                push_constant_ranges : & $pcr
            })
        }",
        toks,
    )
    .map_err(|e| stage_err("fn create_pipeline_layout", e))?;
    let mut groups = Vec::new();
    for g in split_commas(&c.group("bgl", Delimiter::Bracket)?) {
        let cg = mt("& bind_groups :: $g :: get_bind_group_layout (device)", &g)
            .map_err(|e| stage_err("create_pipeline_layout: bind_group_layouts", e))?;
        groups.push(n(suffix_no(&cg.ident("g")?, "BindGroup")?));
    }
    let mut ranges = Vec::new();
    for r in split_commas(&c.group("pcr", Delimiter::Bracket)?) {
        let cr = mt("wgpu :: PushConstantRange { stages : $[st] , range : $a . . $b }", &r)
            .map_err(|e| stage_err("create_pipeline_layout: push_constant_ranges", e))?;
        let is_const = is_exact("PUSH_CONSTANT_STAGES", cr.many("st")).is_ok();
        ranges.push(app(
            "mkOutPcRange",
            &[b(is_const), n(cr.int("a")?), n(cr.int("b")?)],
        ));
    }
    Ok((groups, ranges))
}
