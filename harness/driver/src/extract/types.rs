//! User structs (+ layout asserts), user constants, `OverrideConstants`.

use super::{stage_err, R};
use crate::coqfmt::{app, b, list, n, opt, pair, s, z};
use crate::tokpat::{concat, mt, mt_prefix, norm, show, split_commas, Caps};
use proc_macro2::{Delimiter, TokenTree as TT};
use quote::ToTokens;

pub const PRIMS: [(&str, &str); 11] = [
    ("i8", "PI8"),
    ("u8", "PU8"),
    ("i16", "PI16"),
    ("u16", "PU16"),
    ("i32", "PI32"),
    ("u32", "PU32"),
    ("f32", "PF32"),
    ("f64", "PF64"),
    ("bool", "PBool"),
    ("i64", "PI64"),
    ("u64", "PU64"),
];

pub fn prim(name: &str) -> Option<&'static str> {
    PRIMS.iter().find(|(r, _)| *r == name).map(|(_, c)| *c)
}

const GLAM: [&str; 18] = [
    "Vec2", "Vec3", "Vec4", "DVec2", "DVec3", "DVec4", "UVec2", "UVec3", "UVec4", "IVec2", "IVec3",
    "IVec4", "Mat2", "Mat3", "Mat4", "DMat2", "DMat3", "DMat4",
];

fn expr_int(e: &syn::Expr) -> R<u128> {
    match e {
        syn::Expr::Lit(syn::ExprLit {
            attrs,
            lit: syn::Lit::Int(li),
        }) if attrs.is_empty() && li.suffix().is_empty() => li
            .base10_digits()
            .parse::<u128>()
            .map_err(|e| format!("integer literal: {}", e)),
        other => Err(format!(
            "expected an unsuffixed integer literal, found `{}`",
            other.to_token_stream()
        )),
    }
}

fn generic_args(seg: &syn::PathSegment) -> R<Vec<&syn::GenericArgument>> {
    match &seg.arguments {
        syn::PathArguments::None => Ok(vec![]),
        syn::PathArguments::AngleBracketed(a) if a.colon2_token.is_none() => {
            Ok(a.args.iter().collect())
        }
        _ => Err(format!(
            "unsupported path arguments in `{}`",
            seg.to_token_stream()
        )),
    }
}

fn arg_type(a: &syn::GenericArgument) -> R<&syn::Type> {
    match a {
        syn::GenericArgument::Type(t) => Ok(t),
        other => Err(format!(
            "expected a type argument, found `{}`",
            other.to_token_stream()
        )),
    }
}

fn arg_int(a: &syn::GenericArgument) -> R<u128> {
    match a {
        syn::GenericArgument::Const(e) => expr_int(e),
        other => Err(format!(
            "expected an integer argument, found `{}`",
            other.to_token_stream()
        )),
    }
}

fn arg_prim(a: &syn::GenericArgument) -> R<&'static str> {
    let t = arg_type(a)?;
    if let syn::Type::Path(tp) = t {
        if tp.qself.is_none() && tp.path.leading_colon.is_none() {
            if let Some(id) = tp.path.get_ident() {
                if let Some(p) = prim(&id.to_string()) {
                    return Ok(p);
                }
            }
        }
    }
    Err(format!(
        "expected a primitive type, found `{}`",
        t.to_token_stream()
    ))
}

/// `syn::Type` -> Coq term of type `rust_ty`.
pub fn rust_ty(t: &syn::Type) -> R<String> {
    let unsupported = || format!("unsupported field type `{}`", t.to_token_stream());
    match t {
        syn::Type::Array(a) => {
            let elem = rust_ty(&a.elem)?;
            let len = expr_int(&a.len)?;
            Ok(app("RArr", &[elem, n(len)]))
        }
        syn::Type::Path(tp) if tp.qself.is_none() => {
            // paths are taken modulo a leading `::`
            let segs: Vec<&syn::PathSegment> = tp.path.segments.iter().collect();
            match segs.as_slice() {
                [seg] => {
                    let name = seg.ident.to_string();
                    let args = generic_args(seg)?;
                    match (name.as_str(), args.as_slice()) {
                        (_, []) => Ok(match prim(&name) {
                            Some(p) => app("RPrim", &[p.to_string()]),
                            None => app("RNamed", &[s(&name)]),
                        }),
                        ("Vec", [a]) => Ok(app("RVec", &[rust_ty(arg_type(a)?)?])),
                        ("Option", [a]) => Ok(app("ROption", &[rust_ty(arg_type(a)?)?])),
                        _ => Err(unsupported()),
                    }
                }
                [ns, seg] if generic_args(ns)?.is_empty() => {
                    let name = seg.ident.to_string();
                    let args = generic_args(seg)?;
                    match (ns.ident.to_string().as_str(), name.as_str(), args.as_slice()) {
                        ("glam", g, []) if GLAM.contains(&g) => {
                            Ok(app("RGlam", &[format!("G{}", g)]))
                        }
                        ("nalgebra", "SVector", [p, k]) => {
                            Ok(app("RNalgV", &[arg_prim(p)?.to_string(), n(arg_int(k)?)]))
                        }
                        ("nalgebra", "SMatrix", [p, r, c]) => Ok(app(
                            "RNalgM",
                            &[arg_prim(p)?.to_string(), n(arg_int(r)?), n(arg_int(c)?)],
                        )),
                        _ => Err(unsupported()),
                    }
                }
                _ => Err(unsupported()),
            }
        }
        _ => Err(unsupported()),
    }
}

pub struct OutStruct {
    pub name: String,
    pub repr_c: bool,
    pub derives: Vec<String>,
    pub fields: Vec<String>,
    pub assert_size: Option<u128>,
    pub assert_offsets: Vec<(String, u128)>,
}

impl OutStruct {
    pub fn print(&self) -> String {
        app(
            "mkOutStruct",
            &[
                s(&self.name),
                b(self.repr_c),
                list(self.derives.iter().map(|d| s(d))),
                list(self.fields.iter().cloned()),
                opt(self.assert_size.map(n)),
                list(
                    self.assert_offsets
                        .iter()
                        .map(|(f, o)| pair(&s(f), &n(*o))),
                ),
            ],
        )
    }
}

fn is_pub(v: &syn::Visibility) -> bool {
    matches!(v, syn::Visibility::Public(_))
}

/// Named `pub` fields of a struct: (name, type, has `#[size(runtime)]`).
fn named_fields(st: &syn::ItemStruct, allow_size_attr: bool) -> R<Vec<(String, String, bool)>> {
    let fields = match &st.fields {
        syn::Fields::Named(f) => f,
        _ => return Err(format!("struct {}: expected named fields", st.ident)),
    };
    if st.semi_token.is_some() {
        return Err(format!("struct {}: unexpected `;`", st.ident));
    }
    let mut out = Vec::new();
    for f in &fields.named {
        let name = f.ident.as_ref().unwrap().to_string();
        let mut runtime = false;
        for a in &f.attrs {
            let toks = norm(a.to_token_stream());
            if allow_size_attr && !runtime && mt("# [size (runtime)]", &toks).is_ok() {
                runtime = true;
            } else {
                return Err(format!(
                    "struct {}: field {}: unexpected attribute `{}`",
                    st.ident,
                    name,
                    show(&toks)
                ));
            }
        }
        if !is_pub(&f.vis) {
            return Err(format!("struct {}: field {} is not `pub`", st.ident, name));
        }
        if !matches!(f.mutability, syn::FieldMutability::None) {
            return Err(format!("struct {}: field {}: mutability", st.ident, name));
        }
        let ty = rust_ty(&f.ty).map_err(|e| format!("struct {}: field {}: {}", st.ident, name, e))?;
        out.push((name, ty, runtime));
    }
    Ok(out)
}

/// `[#[repr(C)]] #[derive(..)] pub struct X { [#[size(runtime)]] pub f: T, .. }`
pub fn user_struct(st: &syn::ItemStruct) -> R<OutStruct> {
    let name = st.ident.to_string();
    let mut repr_c = false;
    let mut derives: Option<Vec<String>> = None;
    for (i, a) in st.attrs.iter().enumerate() {
        let toks = norm(a.to_token_stream());
        if i == 0 && mt("# [repr (C)]", &toks).is_ok() {
            repr_c = true;
        } else if let (None, Ok(c)) = (&derives, mt("# [derive $d]", &toks)) {
            let inner = c.group("d", Delimiter::Parenthesis)?;
            derives = Some(split_commas(&inner).iter().map(|p| concat(p)).collect());
        } else {
            return Err(format!(
                "struct {}: unexpected attribute `{}`",
                name,
                show(&toks)
            ));
        }
    }
    let derives = derives.ok_or_else(|| format!("struct {}: no #[derive]", name))?;
    if !is_pub(&st.vis) {
        return Err(format!("struct {} is not `pub`", name));
    }
    if !st.generics.params.is_empty() || st.generics.where_clause.is_some() {
        return Err(format!("struct {}: unexpected generics", name));
    }
    let fields = named_fields(st, true)?
        .into_iter()
        .map(|(f, t, r)| app("mkOutField", &[s(&f), t, b(r)]))
        .collect();
    Ok(OutStruct {
        name,
        repr_c,
        derives,
        fields,
        assert_size: None,
        assert_offsets: Vec::new(),
    })
}

pub enum Assert {
    Size(String, u128),
    Offset(String, String, u128),
}

/// `const _: () = assert!(.. == n, "..");`
pub fn layout_assert(toks: &[TT]) -> R<Assert> {
    let c = mt("const _ : () = assert ! $m ;", toks).map_err(|e| format!("layout assert: {}", e))?;
    let inner = c.group("m", Delimiter::Parenthesis)?;
    if let Ok(c) = mt("std :: mem :: size_of :: < $S > () == $n , $msg", &inner) {
        let st = c.ident("S")?;
        let msg = c.string("msg")?;
        let want = format!("size of {} does not match WGSL", st);
        if msg != want {
            return Err(format!("size assert message {:?}, expected {:?}", msg, want));
        }
        return Ok(Assert::Size(st, c.int("n")?));
    }
    let c = mt("std :: mem :: offset_of ! $a == $n , $msg", &inner)
        .map_err(|e| format!("layout assert `{}`: {}", show(&inner), e))?;
    let a = c.group("a", Delimiter::Parenthesis)?;
    let ca = mt("$S , $[f]", &a).map_err(|e| format!("offset_of!: {}", e))?;
    let st = ca.ident("S")?;
    let field = concat(ca.many("f"));
    let msg = c.string("msg")?;
    let want = format!("offset of {}.{} does not match WGSL", st, field);
    if msg != want {
        return Err(format!(
            "offset assert message {:?}, expected {:?}",
            msg, want
        ));
    }
    Ok(Assert::Offset(st, field, c.int("n")?))
}

/// digits and suffix of a numeric literal token
fn num_lit(l: &proc_macro2::Literal) -> R<(String, String)> {
    match syn::parse_str::<syn::Lit>(&l.to_string()) {
        Ok(syn::Lit::Int(i)) => Ok((i.base10_digits().to_string(), i.suffix().to_string())),
        Ok(syn::Lit::Float(f)) => Ok((f.base10_digits().to_string(), f.suffix().to_string())),
        _ => Err(format!("expected a numeric literal, found `{}`", l)),
    }
}

/// Literal token (with an optional leading minus) -> Coq `literal`.
pub fn const_literal(toks: &[TT]) -> R<String> {
    let (neg, rest) = match toks {
        [TT::Punct(p), rest @ ..] if p.as_char() == '-' => (true, rest),
        _ => (false, toks),
    };
    match rest {
        [TT::Ident(i)] if !neg && (i == "true" || i == "false") => {
            Ok(app("LBool", &[b(i == "true")]))
        }
        [TT::Literal(l)] => {
            let (digits, suffix) = num_lit(l)?;
            let int = |lo: i128, hi: i128| -> R<i128> {
                let v: i128 = digits
                    .parse::<i128>()
                    .map_err(|e| format!("literal `{}`: {}", l, e))?;
                let v = if neg { -v } else { v };
                if v < lo || v > hi {
                    return Err(format!("literal `{}{}` out of range", if neg { "-" } else { "" }, l));
                }
                Ok(v)
            };
            match suffix.as_str() {
                "f32" => {
                    let v: f32 = digits
                        .parse::<f32>()
                        .map_err(|e| format!("literal `{}`: {}", l, e))?;
                    let v = if neg { -v } else { v };
                    Ok(app("LF32", &[n(v.to_bits())]))
                }
                "f64" => {
                    let v: f64 = digits
                        .parse::<f64>()
                        .map_err(|e| format!("literal `{}`: {}", l, e))?;
                    let v = if neg { -v } else { v };
                    Ok(app("LF64", &[n(v.to_bits())]))
                }
                "u32" => Ok(app("LU32", &[n(int(0, u32::MAX as i128)? as u128)])),
                "u64" => Ok(app("LU64", &[n(int(0, u64::MAX as i128)? as u128)])),
                "i32" => Ok(app("LI32", &[z(int(i32::MIN as i128, i32::MAX as i128)?)])),
                "i64" => Ok(app("LI64", &[z(int(i64::MIN as i128, i64::MAX as i128)?)])),
                "" => Err(format!("unsuffixed literal `{}`", l)),
                other => Err(format!("literal `{}` has the unsupported suffix `{}`", l, other)),
            }
        }
        other => Err(format!("expected a literal, found `{}`", show(other))),
    }
}

/// `pub const NAME: prim = <lit>;`
pub fn user_const(toks: &[TT]) -> R<String> {
    let c = mt("pub const $name : $ty = $[e] ;", toks).map_err(|e| format!("constant: {}", e))?;
    let name = c.ident("name")?;
    let ty = c.ident("ty")?;
    let p = prim(&ty).ok_or_else(|| format!("constant {}: type `{}` is not primitive", name, ty))?;
    let lit = const_literal(c.many("e")).map_err(|e| format!("constant {}: {}", name, e))?;
    Ok(app("mkOutConst", &[s(&name), p.to_string(), lit]))
}

// ---------------------------------------------------------------------------
// OverrideConstants
// ---------------------------------------------------------------------------

/// `pub struct OverrideConstants { pub f: T, .. }` -> `ov_fields`
pub fn override_struct(st: &syn::ItemStruct) -> R<Vec<String>> {
    if st.ident != "OverrideConstants" {
        return Err(format!(
            "struct {} without attributes is not OverrideConstants",
            st.ident
        ));
    }
    if !st.attrs.is_empty()
        || !is_pub(&st.vis)
        || !st.generics.params.is_empty()
        || st.generics.where_clause.is_some()
    {
        return Err("OverrideConstants: unexpected attributes/visibility/generics".to_string());
    }
    Ok(named_fields(st, false)?
        .into_iter()
        .map(|(f, t, _)| pair(&s(&f), &t))
        .collect())
}

fn ov_entry(key: &Caps, field: String, is_bool: bool) -> R<String> {
    Ok(app("mkOvEntry", &[s(&key.string("k")?), s(&field), b(is_bool)]))
}

/// `impl OverrideConstants { pub fn constants(&self) -> HashMap<String, f64> { .. } }`
/// -> (`ov_required`, `ov_optional`)
pub fn override_impl(toks: &[TT]) -> R<(Vec<String>, Vec<String>)> {
    let c = mt(
        "impl OverrideConstants { pub fn constants (& self) -> std :: collections :: HashMap < String , f64 > $body }",
        toks,
    )
    .map_err(|e| stage_err("impl OverrideConstants", e))?;
    let body = c.group("body", Delimiter::Brace)?;

    let (c0, used, is_mut) = match mt_prefix(
        "let entries = std :: collections :: HashMap :: from $arr ;",
        &body,
    ) {
        Ok((c0, used)) => (c0, used, false),
        Err(_) => {
            let (c0, used) = mt_prefix(
                "let mut entries = std :: collections :: HashMap :: from $arr ;",
                &body,
            )
            .map_err(|e| stage_err("OverrideConstants::constants", e))?;
            (c0, used, true)
        }
    };
    let arr = c0.group("arr", Delimiter::Parenthesis)?;
    let elems = match arr.as_slice() {
        [TT::Group(g)] if g.delimiter() == Delimiter::Bracket => crate::tokpat::group_tokens(g),
        other => {
            return Err(format!(
                "OverrideConstants::constants: HashMap::from argument `{}`",
                show(other)
            ))
        }
    };
    let mut required = Vec::new();
    for e in split_commas(&elems) {
        if let Ok(c) = mt("($k . to_owned () , self . $f as f64)", &e) {
            required.push(ov_entry(&c, c.ident("f")?, false)?);
        } else {
            let c = mt(
                "($k . to_owned () , if self . $f { 1.0 } else { 0.0 })",
                &e,
            )
            .map_err(|er| format!("OverrideConstants required entry `{}`: {}", show(&e), er))?;
            required.push(ov_entry(&c, c.ident("f")?, true)?);
        }
    }

    let mut rest = &body[used..];
    let mut optional = Vec::new();
    loop {
        if let Ok((c, used)) = mt_prefix("if let Some (value) = self . $f $blk", rest) {
            let blk = c.group("blk", Delimiter::Brace)?;
            let field = c.ident("f")?;
            if let Ok(ci) = mt("entries . insert ($k . to_owned () , value as f64) ;", &blk) {
                optional.push(ov_entry(&ci, field, false)?);
            } else {
                let ci = mt(
                    "entries . insert ($k . to_owned () , if value { 1.0 } else { 0.0 }) ;",
                    &blk,
                )
                .map_err(|er| format!("OverrideConstants optional entry `{}`: {}", show(&blk), er))?;
                optional.push(ov_entry(&ci, field, true)?);
            }
            rest = &rest[used..];
            // the generator separates the `if let` statements by `;`
            if let [TT::Punct(p), ..] = rest {
                if p.as_char() == ';' {
                    rest = &rest[1..];
                }
            }
        } else {
            break;
        }
    }
    mt("entries", rest).map_err(|e| stage_err("OverrideConstants::constants tail", e))?;
    if is_mut != !optional.is_empty() {
        return Err("OverrideConstants::constants: `mut` does not agree with the optional entries".to_string());
    }
    Ok((required, optional))
}
