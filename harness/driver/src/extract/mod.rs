//! Strict extractor: text returned by `wgsl_to_wgpu::create_shader_module{,_embedded}`
//! -> Coq term of type `out` (datatypes in /verif/coq/Model/Out.v).
//!
//! The text is parsed with `syn::parse_file`; the top-level items are then
//! consumed *in the order of the sections of the generator's final `quote!`*:
//!
//!   (user struct, layout asserts)*  user const*  (OverrideConstants struct, impl)?
//!   (mod bind_groups, fn set_bind_groups)?  vertex input impl*  (mod compute)?
//!   ENTRY_* const*  (VertexEntry, vertex_state, <e>_entry*)?
//!   (FragmentEntry, fragment_state, <e>_entry*)?  SOURCE  create_shader_module
//!   PUSH_CONSTANT_STAGES?  create_pipeline_layout
//!
//! Every item has to match its template token for token (modulo trailing commas
//! and whitespace, so that prettyplease and rustfmt outputs agree); holes of the
//! templates go into the `out` record. Anything else is an error.

pub mod bindgroups;
mod entries;
pub mod types;

use crate::coqfmt::{app, b, list, opt};
use crate::tokpat::{is_exact, norm, show};
use proc_macro2::TokenTree as TT;
use quote::ToTokens;

pub type R<T> = Result<T, String>;

pub fn stage_err(ctx: &str, e: String) -> String {
    format!("{}: {}", ctx, e)
}

struct It {
    item: syn::Item,
    toks: Vec<TT>,
}

fn items_of(items: Vec<syn::Item>) -> Vec<It> {
    items
        .into_iter()
        .map(|item| {
            let toks = norm(item.to_token_stream());
            It { item, toks }
        })
        .collect()
}

/// `pub mod <name> { items }` without attributes -> token lists of the items.
fn mod_items(m: &syn::ItemMod) -> R<Vec<Vec<TT>>> {
    let name = m.ident.to_string();
    if !m.attrs.is_empty()
        || !matches!(m.vis, syn::Visibility::Public(_))
        || m.unsafety.is_some()
        || m.semi.is_some()
    {
        return Err(format!("mod {}: unexpected attributes/visibility", name));
    }
    let (_, items) = m
        .content
        .as_ref()
        .ok_or_else(|| format!("mod {}: no body", name))?;
    Ok(items
        .iter()
        .map(|i| norm(i.to_token_stream()))
        .collect())
}

fn fn_returns(f: &syn::ItemFn, first_segment: &str) -> bool {
    if let syn::ReturnType::Type(_, t) = &f.sig.output {
        if let syn::Type::Path(p) = &**t {
            if let Some(seg) = p.path.segments.first() {
                return p.qself.is_none() && seg.ident == first_segment;
            }
        }
    }
    false
}

fn is_single_ident_type(t: &syn::Type) -> bool {
    matches!(t, syn::Type::Path(p) if p.qself.is_none() && p.path.get_ident().is_some())
}

struct Cursor {
    items: Vec<It>,
    pos: usize,
}

impl Cursor {
    fn peek(&self) -> Option<&It> {
        self.items.get(self.pos)
    }
    fn bump(&mut self) {
        self.pos += 1;
    }
    fn describe(&self) -> String {
        match self.peek() {
            Some(it) => format!("item {} `{}`", self.pos, show(&it.toks)),
            None => "end of file".to_string(),
        }
    }
}

/// Extracts the `out` term from the generated text.
pub fn extract(text: &str) -> Result<String, String> {
    let file = syn::parse_file(text).map_err(|e| format!("syn::parse_file failed: {}", e))?;
    if file.shebang.is_some() || !file.attrs.is_empty() {
        return Err("unexpected shebang or inner attributes".to_string());
    }
    let mut c = Cursor {
        items: items_of(file.items),
        pos: 0,
    };

    // --- structs and their layout asserts --------------------------------
    let mut structs: Vec<types::OutStruct> = Vec::new();
    loop {
        let it = match c.peek() {
            Some(it) => it,
            None => break,
        };
        match &it.item {
            syn::Item::Struct(st) if !st.attrs.is_empty() && st.generics.params.is_empty() => {
                structs.push(types::user_struct(st)?);
            }
            syn::Item::Const(k) if k.ident == "_" => match types::layout_assert(&it.toks)? {
                types::Assert::Size(name, v) => {
                    let st = structs
                        .iter_mut()
                        .rev()
                        .find(|x| x.name == name)
                        .ok_or_else(|| format!("size assert names `{}`, which was not emitted", name))?;
                    if st.assert_size.is_some() {
                        return Err(format!("second size assert for `{}`", name));
                    }
                    st.assert_size = Some(v);
                }
                types::Assert::Offset(name, field, v) => {
                    let st = structs
                        .iter_mut()
                        .rev()
                        .find(|x| x.name == name)
                        .ok_or_else(|| format!("offset assert names `{}`, which was not emitted", name))?;
                    st.assert_offsets.push((field, v));
                }
            },
            _ => break,
        }
        c.bump();
    }

    // --- user constants ---------------------------------------------------
    let mut consts = Vec::new();
    while let Some(it) = c.peek() {
        match &it.item {
            syn::Item::Const(k) if k.ident != "_" && is_single_ident_type(&k.ty) => {
                consts.push(types::user_const(&it.toks)?);
            }
            _ => break,
        }
        c.bump();
    }

    // --- OverrideConstants ------------------------------------------------
    let mut overrides: Option<String> = None;
    if let Some(It {
        item: syn::Item::Struct(st),
        ..
    }) = c.peek()
    {
        if st.attrs.is_empty() {
            let fields = types::override_struct(st)?;
            c.bump();
            let it = c
                .peek()
                .ok_or_else(|| "OverrideConstants struct without impl".to_string())?;
            let (req, optl) = types::override_impl(&it.toks)?;
            c.bump();
            overrides = Some(app(
                "mkOutOverrides",
                &[list(fields), list(req), list(optl)],
            ));
        }
    }

    // --- bind groups ------------------------------------------------------
    let mut bind_groups: Option<String> = None;
    if let Some(It {
        item: syn::Item::Mod(m),
        ..
    }) = c.peek()
    {
        if m.ident == "bind_groups" {
            let inner = mod_items(m)?;
            c.bump();
            let it = c
                .peek()
                .ok_or_else(|| "mod bind_groups without fn set_bind_groups".to_string())?;
            bind_groups = Some(bindgroups::bind_groups(&inner, &it.toks)?);
            c.bump();
        }
    }

    // --- vertex input struct impls ---------------------------------------
    let mut vstructs = Vec::new();
    while let Some(It {
        item: syn::Item::Impl(_),
        toks,
    }) = c.peek()
    {
        vstructs.push(entries::vertex_impl(toks)?);
        c.bump();
    }

    // --- compute module ---------------------------------------------------
    let mut compute = Vec::new();
    if let Some(It {
        item: syn::Item::Mod(m),
        ..
    }) = c.peek()
    {
        if m.ident == "compute" {
            compute = entries::compute_mod(&mod_items(m)?)?;
            c.bump();
        }
    }

    // --- entry point constants -------------------------------------------
    let mut entry_consts = Vec::new();
    while let Some(it) = c.peek() {
        match &it.item {
            syn::Item::Const(k)
                if k.ident.to_string().starts_with("ENTRY_")
                    && matches!(&*k.ty, syn::Type::Reference(_)) =>
            {
                entry_consts.push(entries::entry_const(&it.toks)?);
            }
            _ => break,
        }
        c.bump();
    }

    // --- vertex entries ---------------------------------------------------
    let mut vertex_tpl = false;
    let mut ventries = Vec::new();
    if let Some(It {
        item: syn::Item::Struct(st),
        toks,
    }) = c.peek()
    {
        if st.ident == "VertexEntry" {
            is_exact(entries::VERTEX_ENTRY_STRUCT, toks)
                .map_err(|e| stage_err("struct VertexEntry", e))?;
            c.bump();
            let it = c
                .peek()
                .ok_or_else(|| "struct VertexEntry without fn vertex_state".to_string())?;
            is_exact(entries::VERTEX_STATE_FN, &it.toks)
                .map_err(|e| stage_err("fn vertex_state", e))?;
            c.bump();
            vertex_tpl = true;
            while let Some(It {
                item: syn::Item::Fn(f),
                toks,
            }) = c.peek()
            {
                if !fn_returns(f, "VertexEntry") {
                    break;
                }
                ventries.push(entries::vertex_entry(toks)?);
                c.bump();
            }
        }
    }

    // --- fragment entries -------------------------------------------------
    let mut fragment_tpl = false;
    let mut fentries = Vec::new();
    if let Some(It {
        item: syn::Item::Struct(st),
        toks,
    }) = c.peek()
    {
        if st.ident == "FragmentEntry" {
            is_exact(entries::FRAGMENT_ENTRY_STRUCT, toks)
                .map_err(|e| stage_err("struct FragmentEntry", e))?;
            c.bump();
            let it = c
                .peek()
                .ok_or_else(|| "struct FragmentEntry without fn fragment_state".to_string())?;
            is_exact(entries::FRAGMENT_STATE_FN, &it.toks)
                .map_err(|e| stage_err("fn fragment_state", e))?;
            c.bump();
            fragment_tpl = true;
            while let Some(It {
                item: syn::Item::Fn(f),
                toks,
            }) = c.peek()
            {
                if !fn_returns(f, "FragmentEntry") {
                    break;
                }
                fentries.push(entries::fragment_entry(toks)?);
                c.bump();
            }
        }
    }

    // --- SOURCE, create_shader_module ------------------------------------
    let unexpected = |c: &Cursor, want: &str| {
        format!(
            "expected {} but found {} (no template of the remaining sections matches)",
            want,
            c.describe()
        )
    };
    let source = match c.peek() {
        Some(It {
            item: syn::Item::Const(k),
            toks,
        }) if k.ident == "SOURCE" => entries::source(toks)?,
        _ => return Err(unexpected(&c, "`pub const SOURCE`")),
    };
    c.bump();
    match c.peek() {
        Some(It {
            item: syn::Item::Fn(f),
            toks,
        }) if f.sig.ident == "create_shader_module" => {
            is_exact(entries::CREATE_SHADER_MODULE, toks)
                .map_err(|e| stage_err("fn create_shader_module", e))?;
        }
        _ => return Err(unexpected(&c, "`fn create_shader_module`")),
    }
    c.bump();

    // --- push constants, pipeline layout ---------------------------------
    let mut pc_stages: Option<String> = None;
    if let Some(It {
        item: syn::Item::Const(k),
        toks,
    }) = c.peek()
    {
        if k.ident == "PUSH_CONSTANT_STAGES" {
            pc_stages = Some(entries::pc_stages(toks)?);
            c.bump();
        }
    }
    let (pl_groups, pc_ranges) = match c.peek() {
        Some(It {
            item: syn::Item::Fn(f),
            toks,
        }) if f.sig.ident == "create_pipeline_layout" => entries::pipeline_layout(toks)?,
        _ => return Err(unexpected(&c, "`fn create_pipeline_layout`")),
    };
    c.bump();
    if c.peek().is_some() {
        return Err(format!("unexpected trailing {}", c.describe()));
    }

    Ok(app(
        "mkOut",
        &[
            list(structs.iter().map(|st| st.print())),
            list(consts),
            opt(overrides),
            opt(bind_groups),
            list(vstructs),
            list(compute),
            list(entry_consts),
            b(vertex_tpl),
            list(ventries),
            b(fragment_tpl),
            list(fentries),
            source,
            opt(pc_stages),
            list(pl_groups),
            list(pc_ranges),
        ],
    ))
}
