//! `pub mod bind_groups { .. }`, `set_bind_groups`, shader stage expressions.

use super::{stage_err, R};
use crate::coqfmt::{app, b, list, n, opt, pair, s};
use crate::tokpat::{is_exact, mt, mt_prefix, show, split_commas, to_stream};
use proc_macro2::{Delimiter, TokenTree as TT};
use quote::ToTokens;

/// Bit set (vertex, fragment, compute).
type Stages = (bool, bool, bool);

fn eval_stage_expr(e: &syn::Expr) -> R<Stages> {
    fn stage_path(p: &syn::ExprPath) -> Option<String> {
        if p.qself.is_some() || !p.attrs.is_empty() {
            return None;
        }
        let segs: Vec<String> = p.path.segments.iter().map(|s| s.ident.to_string()).collect();
        if p.path
            .segments
            .iter()
            .any(|s| !matches!(s.arguments, syn::PathArguments::None))
        {
            return None;
        }
        match segs.as_slice() {
            [a, b, c] if a == "wgpu" && b == "ShaderStages" => Some(c.clone()),
            _ => None,
        }
    }
    let bad = || format!("unsupported shader stage expression `{}`", e.to_token_stream());
    match e {
        syn::Expr::Path(p) => match stage_path(p).as_deref() {
            Some("NONE") => Ok((false, false, false)),
            Some("VERTEX") => Ok((true, false, false)),
            Some("FRAGMENT") => Ok((false, true, false)),
            Some("COMPUTE") => Ok((false, false, true)),
            Some("VERTEX_FRAGMENT") => Ok((true, true, false)),
            _ => Err(bad()),
        },
        syn::Expr::Call(c) if c.args.is_empty() && c.attrs.is_empty() => match &*c.func {
            syn::Expr::Path(p) if stage_path(p).as_deref() == Some("all") => Ok((true, true, true)),
            _ => Err(bad()),
        },
        syn::Expr::MethodCall(m)
            if m.method == "union" && m.turbofish.is_none() && m.args.len() == 1 && m.attrs.is_empty() =>
        {
            let a = eval_stage_expr(&m.receiver)?;
            let c = eval_stage_expr(&m.args[0])?;
            Ok((a.0 || c.0, a.1 || c.1, a.2 || c.2))
        }
        syn::Expr::Binary(bin) if matches!(bin.op, syn::BinOp::BitOr(_)) && bin.attrs.is_empty() => {
            let a = eval_stage_expr(&bin.left)?;
            let c = eval_stage_expr(&bin.right)?;
            Ok((a.0 || c.0, a.1 || c.1, a.2 || c.2))
        }
        syn::Expr::Paren(p) if p.attrs.is_empty() => eval_stage_expr(&p.expr),
        _ => Err(bad()),
    }
}

/// Evaluates a stage expression given as tokens to a Coq `stages` term.
pub fn stages(toks: &[TT]) -> R<String> {
    let e: syn::Expr = syn::parse2(to_stream(toks))
        .map_err(|e| format!("stage expression `{}`: {}", show(toks), e))?;
    let (v, f, c) = eval_stage_expr(&e)?;
    Ok(app("mkStages", &[b(v), b(f), b(c)]))
}

/// `<prefix><decimal>` -> number; the decimal has to be canonical.
pub fn suffix_no(ident: &str, prefix: &str) -> R<u128> {
    let err = || format!("`{}` is not `{}<n>`", ident, prefix);
    let d = ident.strip_prefix(prefix).ok_or_else(err)?;
    let v: u128 = d.parse().map_err(|_| err())?;
    if v.to_string() != d {
        return Err(err());
    }
    Ok(v)
}

const STORAGE_FORMATS: [&str; 41] = [
    "R8Unorm", "R8Snorm", "R8Uint", "R8Sint", "R16Uint", "R16Sint", "R16Float", "Rg8Unorm",
    "Rg8Snorm", "Rg8Uint", "Rg8Sint", "R32Uint", "R32Sint", "R32Float", "Rg16Uint", "Rg16Sint",
    "Rg16Float", "Rgba8Unorm", "Rgba8Snorm", "Rgba8Uint", "Rgba8Sint", "Bgra8Unorm", "Rgb10a2Uint",
    "Rgb10a2Unorm", "Rg11b10Ufloat", "R64Uint", "Rg32Uint", "Rg32Sint", "Rg32Float", "Rgba16Uint",
    "Rgba16Sint", "Rgba16Float", "Rgba32Uint", "Rgba32Sint", "Rgba32Float", "R16Unorm", "R16Snorm",
    "Rg16Unorm", "Rg16Snorm", "Rgba16Unorm", "Rgba16Snorm",
];

fn view_dim(name: &str) -> R<&'static str> {
    Ok(match name {
        "D1" => "VD1",
        "D2" => "VD2",
        "D2Array" => "VD2Array",
        "Cube" => "VDCube",
        "CubeArray" => "VDCubeArray",
        "D3" => "VD3",
        other => return Err(format!("unknown TextureViewDimension::{}", other)),
    })
}

fn binding_type(toks: &[TT]) -> R<String> {
    if let Ok(c) = mt(
        "wgpu :: BindingType :: Buffer { ty : $[bt] , has_dynamic_offset : $dyn , min_binding_size : $[mbs] }",
        toks,
    ) {
        let bt = c.many("bt");
        let buf = if is_exact("wgpu :: BufferBindingType :: Uniform", bt).is_ok() {
            "BufUniform".to_string()
        } else {
            let cb = mt("wgpu :: BufferBindingType :: Storage { read_only : $ro }", bt)
                .map_err(|e| format!("buffer binding type `{}`: {}", show(bt), e))?;
            app("BufStorage", &[b(cb.boolean("ro")?)])
        };
        let mbs = c.many("mbs");
        if is_exact("None", mbs).is_err() {
            return Err(format!(
                "min_binding_size `{}` is not representable (only None)",
                show(mbs)
            ));
        }
        return Ok(app(
            "BTBuffer",
            &[buf, b(c.boolean("dyn")?), opt(None)],
        ));
    }
    if let Ok(c) = mt(
        "wgpu :: BindingType :: Texture { sample_type : $[st] , view_dimension : wgpu :: TextureViewDimension :: $vd , multisampled : $ms }",
        toks,
    ) {
        let st = c.many("st");
        let sample = if let Ok(cs) = mt("wgpu :: TextureSampleType :: Float { filterable : $f }", st) {
            app("STFloat", &[b(cs.boolean("f")?)])
        } else if is_exact("wgpu :: TextureSampleType :: Sint", st).is_ok() {
            "STSint".to_string()
        } else if is_exact("wgpu :: TextureSampleType :: Uint", st).is_ok() {
            "STUint".to_string()
        } else if is_exact("wgpu :: TextureSampleType :: Depth", st).is_ok() {
            "STDepth".to_string()
        } else {
            return Err(format!("unknown sample type `{}`", show(st)));
        };
        return Ok(app(
            "BTTexture",
            &[
                sample,
                view_dim(&c.ident("vd")?)?.to_string(),
                b(c.boolean("ms")?),
            ],
        ));
    }
    if let Ok(c) = mt(
        "wgpu :: BindingType :: StorageTexture { access : wgpu :: StorageTextureAccess :: $a , format : wgpu :: TextureFormat :: $f , view_dimension : wgpu :: TextureViewDimension :: $vd }",
        toks,
    ) {
        let a = match c.ident("a")?.as_str() {
            "ReadOnly" => "TAReadOnly",
            "WriteOnly" => "TAWriteOnly",
            "ReadWrite" => "TAReadWrite",
            "Atomic" => "TAAtomic",
            other => return Err(format!("unknown StorageTextureAccess::{}", other)),
        };
        let f = c.ident("f")?;
        if !STORAGE_FORMATS.contains(&f.as_str()) {
            return Err(format!("TextureFormat::{} is not a storage format of the model", f));
        }
        return Ok(app(
            "BTStorageTexture",
            &[a.to_string(), f, view_dim(&c.ident("vd")?)?.to_string()],
        ));
    }
    let c = mt("wgpu :: BindingType :: Sampler (wgpu :: SamplerBindingType :: $s)", toks)
        .map_err(|_| format!("unknown binding type `{}`", show(toks)))?;
    let st = match c.ident("s")?.as_str() {
        "Filtering" => "SFiltering",
        "NonFiltering" => "SNonFiltering",
        "Comparison" => "SComparison",
        other => return Err(format!("unknown SamplerBindingType::{}", other)),
    };
    Ok(app("BTSampler", &[st.to_string()]))
}

fn res_kind_of_field(toks: &[TT]) -> R<(String, &'static str)> {
    if let Ok(c) = mt("pub $f : wgpu :: BufferBinding < 'a >", toks) {
        return Ok((c.ident("f")?, "RKBuffer"));
    }
    if let Ok(c) = mt("pub $f : & 'a wgpu :: TextureView", toks) {
        return Ok((c.ident("f")?, "RKTexture"));
    }
    let c = mt("pub $f : & 'a wgpu :: Sampler", toks)
        .map_err(|_| format!("unknown bind group layout field `{}`", show(toks)))?;
    Ok((c.ident("f")?, "RKSampler"))
}

const GROUP_IMPL: &str = "impl $g {
    pub fn get_bind_group_layout (device : & wgpu :: Device) -> wgpu :: BindGroupLayout {
        device . create_bind_group_layout (& $d1)
    }
    pub fn from_bindings (device : & wgpu :: Device , bindings : $l) -> Self {
        let bind_group_layout = device . create_bind_group_layout (& $d2) ;
        let bind_group = device . create_bind_group (& wgpu :: BindGroupDescriptor {
            layout : & bind_group_layout ,
            entries : & $entries ,
            label : Some ($label)
        }) ;
        Self (bind_group)
    }
    pub fn set < P : SetBindGroup > (& self , pass : & mut P) {
        pass . set_bind_group ($idx , & self . 0 , & []) ;
    }
}";

/// The four items of one group -> Coq `out_group`.
fn group(items: &[Vec<TT>]) -> R<String> {
    let c1 = mt("# [derive (Debug)] pub struct $g (wgpu :: BindGroup) ;", &items[0])
        .map_err(|e| stage_err("bind group struct", e))?;
    let og_no = suffix_no(&c1.ident("g")?, "BindGroup")?;
    let ctx = format!("bind group {}", og_no);

    let c2 = mt("# [derive (Debug)] pub struct $l < 'a > $fields", &items[1])
        .map_err(|e| stage_err(&format!("{}: layout struct", ctx), e))?;
    let layout_no = suffix_no(&c2.ident("l")?, "BindGroupLayout")?;
    let mut layout_fields = Vec::new();
    for f in split_commas(&c2.group("fields", Delimiter::Brace)?) {
        let (name, kind) = res_kind_of_field(&f).map_err(|e| stage_err(&ctx, e))?;
        layout_fields.push(pair(&s(&name), kind));
    }

    let c3 = mt(
        "const $d : wgpu :: BindGroupLayoutDescriptor = wgpu :: BindGroupLayoutDescriptor { label : Some ($label) , entries : & $entries } ;",
        &items[2],
    )
    .map_err(|e| stage_err(&format!("{}: layout descriptor", ctx), e))?;
    let desc_no = suffix_no(&c3.ident("d")?, "LAYOUT_DESCRIPTOR")?;
    let desc_label = c3.string("label")?;
    let mut entries = Vec::new();
    for e in split_commas(&c3.group("entries", Delimiter::Bracket)?) {
        let ce = mt(
            "wgpu :: BindGroupLayoutEntry { binding : $b , visibility : $[v] , ty : $[t] , count : $[c] }",
            &e,
        )
        .map_err(|er| stage_err(&format!("{}: layout entry", ctx), er))?;
        let binding = ce.int("b")?;
        let ectx = format!("{}: layout entry {}", ctx, binding);
        entries.push(app(
            "mkOutEntry",
            &[
                n(binding),
                stages(ce.many("v")).map_err(|er| stage_err(&ectx, er))?,
                binding_type(ce.many("t")).map_err(|er| stage_err(&ectx, er))?,
                b(is_exact("None", ce.many("c")).is_ok()),
            ],
        ));
    }

    let c4 = mt(GROUP_IMPL, &items[3]).map_err(|e| stage_err(&format!("{}: impl", ctx), e))?;
    let impl_no = suffix_no(&c4.ident("g")?, "BindGroup")?;
    let get_no = suffix_no(&c4.ident("d1")?, "LAYOUT_DESCRIPTOR")?;
    let param_no = suffix_no(&c4.ident("l")?, "BindGroupLayout")?;
    let from_no = suffix_no(&c4.ident("d2")?, "LAYOUT_DESCRIPTOR")?;
    let mut bind_entries = Vec::new();
    for e in split_commas(&c4.group("entries", Delimiter::Bracket)?) {
        let ce = mt(
            "wgpu :: BindGroupEntry { binding : $b , resource : wgpu :: BindingResource :: $k (bindings . $f) }",
            &e,
        )
        .map_err(|er| stage_err(&format!("{}: bind group entry", ctx), er))?;
        let kind = match ce.ident("k")?.as_str() {
            "Buffer" => "RKBuffer",
            "TextureView" => "RKTexture",
            "Sampler" => "RKSampler",
            other => return Err(format!("{}: unknown BindingResource::{}", ctx, other)),
        };
        bind_entries.push(app(
            "mkOutBindEntry",
            &[n(ce.int("b")?), s(&ce.ident("f")?), kind.to_string()],
        ));
    }

    Ok(app(
        "mkOutGroup",
        &[
            n(og_no),
            n(layout_no),
            list(layout_fields),
            n(desc_no),
            s(&desc_label),
            list(entries),
            n(impl_no),
            n(get_no),
            n(param_no),
            n(from_no),
            list(bind_entries),
            s(&c4.string("label")?),
            n(c4.int("idx")?),
        ],
    ))
}

const SET_TRAIT: &str = "pub trait SetBindGroup {
    fn set_bind_group (& mut self , index : u32 , bind_group : & wgpu :: BindGroup , offsets : & [wgpu :: DynamicOffset]) ;
}";
const SET_IMPL_COMPUTE: &str = "impl SetBindGroup for wgpu :: ComputePass < '_ > {
    fn set_bind_group (& mut self , index : u32 , bind_group : & wgpu :: BindGroup , offsets : & [wgpu :: DynamicOffset]) {
        self . set_bind_group (index , bind_group , offsets) ;
    }
}";
const SET_IMPL_RENDER: &str = "impl SetBindGroup for wgpu :: RenderPass < '_ > {
    fn set_bind_group (& mut self , index : u32 , bind_group : & wgpu :: BindGroup , offsets : & [wgpu :: DynamicOffset]) {
        self . set_bind_group (index , bind_group , offsets) ;
    }
}";
const SET_IMPL_BUNDLE: &str = "impl SetBindGroup for wgpu :: RenderBundleEncoder < '_ > {
    fn set_bind_group (& mut self , index : u32 , bind_group : & wgpu :: BindGroup , offsets : & [wgpu :: DynamicOffset]) {
        self . set_bind_group (index , bind_group , offsets) ;
    }
}";

/// Sequence of `<prefix> bind_group<n> . set (pass) ;` statements.
fn set_calls(mut toks: &[TT], with_self: bool) -> R<Vec<String>> {
    let mut out = Vec::new();
    while !toks.is_empty() {
        let (c, used) = if with_self {
            mt_prefix("self . $g . set (pass) ;", toks)?
        } else {
            mt_prefix("$g . set (pass) ;", toks)?
        };
        out.push(n(suffix_no(&c.ident("g")?, "bind_group")?));
        toks = &toks[used..];
    }
    Ok(out)
}

/// Items of `pub mod bind_groups` and the tokens of `set_bind_groups` -> `out_bind_groups`.
pub fn bind_groups(items: &[Vec<TT>], set_fn: &[TT]) -> R<String> {
    let mut pos = 0;
    let mut groups = Vec::new();
    while pos < items.len()
        && mt("# [derive (Debug)] pub struct $g $t ;", &items[pos]).is_ok()
    {
        if pos + 4 > items.len() {
            return Err("bind_groups: truncated group (expected 4 items)".to_string());
        }
        groups.push(group(&items[pos..pos + 4])?);
        pos += 4;
    }
    let tail = &items[pos..];
    if tail.len() != 6 {
        return Err(format!(
            "bind_groups: expected 6 trailing template items after the groups, found {}{}",
            tail.len(),
            tail.first()
                .map(|t| format!(" (first: `{}`)", show(t)))
                .unwrap_or_default()
        ));
    }
    let c = mt(
        "# [derive (Debug , Copy , Clone)] pub struct BindGroups < 'a > $fields",
        &tail[0],
    )
    .map_err(|e| stage_err("struct BindGroups", e))?;
    let mut struct_fields = Vec::new();
    for f in split_commas(&c.group("fields", Delimiter::Brace)?) {
        let cf = mt("pub $f : & 'a $g", &f).map_err(|e| stage_err("struct BindGroups field", e))?;
        struct_fields.push(pair(
            &n(suffix_no(&cf.ident("f")?, "bind_group")?),
            &n(suffix_no(&cf.ident("g")?, "BindGroup")?),
        ));
    }
    let c = mt(
        "impl BindGroups < '_ > { pub fn set < P : SetBindGroup > (& self , pass : & mut P) $body }",
        &tail[1],
    )
    .map_err(|e| stage_err("impl BindGroups", e))?;
    let struct_set = set_calls(&c.group("body", Delimiter::Brace)?, true)
        .map_err(|e| stage_err("BindGroups::set", e))?;
    is_exact(SET_TRAIT, &tail[2]).map_err(|e| stage_err("trait SetBindGroup", e))?;
    is_exact(SET_IMPL_COMPUTE, &tail[3]).map_err(|e| stage_err("impl SetBindGroup for ComputePass", e))?;
    is_exact(SET_IMPL_RENDER, &tail[4]).map_err(|e| stage_err("impl SetBindGroup for RenderPass", e))?;
    is_exact(SET_IMPL_BUNDLE, &tail[5])
        .map_err(|e| stage_err("impl SetBindGroup for RenderBundleEncoder", e))?;

    let c = mt(
        "pub fn set_bind_groups < P : bind_groups :: SetBindGroup > $params $body",
        set_fn,
    )
    .map_err(|e| stage_err("fn set_bind_groups", e))?;
    let params = split_commas(&c.group("params", Delimiter::Parenthesis)?);
    let (first, rest) = params
        .split_first()
        .ok_or_else(|| "fn set_bind_groups: no parameters".to_string())?;
    is_exact("pass : & mut P", first).map_err(|e| stage_err("fn set_bind_groups: first parameter", e))?;
    let mut fn_params = Vec::new();
    for p in rest {
        let cp = mt("$f : & bind_groups :: $g", p)
            .map_err(|e| stage_err("fn set_bind_groups parameter", e))?;
        fn_params.push(pair(
            &n(suffix_no(&cp.ident("f")?, "bind_group")?),
            &n(suffix_no(&cp.ident("g")?, "BindGroup")?),
        ));
    }
    let fn_set = set_calls(&c.group("body", Delimiter::Brace)?, false)
        .map_err(|e| stage_err("fn set_bind_groups body", e))?;

    Ok(app(
        "mkOutBindGroups",
        &[
            list(groups),
            list(struct_fields),
            list(struct_set),
            list(fn_params),
            list(fn_set),
        ],
    ))
}
