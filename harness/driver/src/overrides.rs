//! `driver overrides <in.jsonl> <out.jsonl>`: run naga's real override resolution
//! (`naga::back::pipeline_constants::process_overrides`) on a shader and a constants map (as produced by the
//! generated `OverrideConstants::constants()`), and report the value every override resolved to.
//! Input line: {"id":…, "wgsl": "...", "constants": {"key": 1.0, ...}}
//! Output line: {"id":…, "result": "ok", "values": {"<override name>": {"ty":"f32","bits":…} | {"ty":"bool","bits":0|1} …}}
//!            | {"id":…, "result": "err", "error": "<Display>"} | {"id":…, "result":"skipped","why":…}
use serde_json::{json, Value};
use std::collections::HashMap;
use std::io::{BufRead, Write};

fn one(case: &Value) -> Value {
    let id = case.get("id").cloned().unwrap_or(Value::Null);
    let wgsl = match case.get("wgsl").and_then(Value::as_str) {
        Some(w) => w,
        None => return json!({"id": id, "result": "skipped", "why": "no wgsl"}),
    };
    let module = match naga::front::wgsl::parse_str(wgsl) {
        Ok(m) => m,
        Err(_) => return json!({"id": id, "result": "skipped", "why": "parse error"}),
    };
    let info = match naga::valid::Validator::new(
        naga::valid::ValidationFlags::all(),
        naga::valid::Capabilities::all(),
    )
    .validate(&module)
    {
        Ok(i) => i,
        Err(e) => return json!({"id": id, "result": "skipped", "why": format!("validation error: {e:?}")}),
    };
    let mut constants: HashMap<String, f64> = HashMap::new();
    if let Some(map) = case.get("constants").and_then(Value::as_object) {
        for (k, v) in map {
            let f = match v {
                Value::String(s) if s == "NaN" => f64::NAN,
                Value::String(s) if s == "inf" => f64::INFINITY,
                Value::String(s) if s == "-inf" => f64::NEG_INFINITY,
                other => other.as_f64().unwrap_or(f64::NAN),
            };
            constants.insert(k.clone(), f);
        }
    }
    // the names of the overrides, in order, before they are replaced by constants
    let names: Vec<Option<String>> = module.overrides.iter().map(|(_, o)| o.name.clone()).collect();
    match naga::back::pipeline_constants::process_overrides(&module, &info, &constants) {
        Err(e) => json!({"id": id, "result": "err", "error": e.to_string()}),
        Ok((m, _)) => {
            let mut values = serde_json::Map::new();
            for name in names.into_iter().flatten() {
                // process_overrides turns every override into a constant of the same name
                if let Some((_, c)) = m.constants.iter().find(|(_, c)| c.name.as_deref() == Some(name.as_str())) {
                    let v = match &m.global_expressions[c.init] {
                        naga::Expression::Literal(l) => match *l {
                            naga::Literal::F32(x) => json!({"ty": "f32", "bits": x.to_bits()}),
                            naga::Literal::F64(x) => json!({"ty": "f64", "bits": x.to_bits()}),
                            naga::Literal::I32(x) => json!({"ty": "i32", "bits": x}),
                            naga::Literal::U32(x) => json!({"ty": "u32", "bits": x}),
                            naga::Literal::Bool(x) => json!({"ty": "bool", "bits": x as u32}),
                            other => json!({"ty": "other", "debug": format!("{other:?}")}),
                        },
                        other => json!({"ty": "nonliteral", "debug": format!("{other:?}")}),
                    };
                    values.insert(name, v);
                }
            }
            json!({"id": id, "result": "ok", "values": values})
        }
    }
}

pub fn overrides(input: &str, output: &str) -> Result<(), String> {
    let f = std::fs::File::open(input).map_err(|e| format!("{input}: {e}"))?;
    let mut out = std::io::BufWriter::new(std::fs::File::create(output).map_err(|e| format!("{output}: {e}"))?);
    for line in std::io::BufReader::new(f).lines() {
        let line = line.map_err(|e| e.to_string())?;
        if line.trim().is_empty() {
            continue;
        }
        let res = match serde_json::from_str::<Value>(&line) {
            Ok(case) => std::panic::catch_unwind(std::panic::AssertUnwindSafe(|| one(&case)))
                .unwrap_or_else(|_| json!({"id": case.get("id").cloned().unwrap_or(Value::Null), "result": "panic"})),
            Err(e) => json!({"id": null, "result": "skipped", "why": format!("bad line: {e}")}),
        };
        writeln!(out, "{}", serde_json::to_string(&res).unwrap()).map_err(|e| e.to_string())?;
    }
    out.flush().map_err(|e| e.to_string())
}
