//! Helpers for printing Coq terms (see DRIVER_SPEC.md, "Coq term syntax").
//!
//! Everything is printed fully parenthesised; numbers carry their scope key.

/// `N` literal: `5%N`.
pub fn n<T: Into<u128>>(v: T) -> String {
    format!("{}%N", v.into())
}

/// `Z` literal: `5%Z` / `(-5)%Z`.
pub fn z<T: Into<i128>>(v: T) -> String {
    let v: i128 = v.into();
    if v < 0 {
        format!("({})%Z", v)
    } else {
        format!("{}%Z", v)
    }
}

/// `nat` literal: `5%nat` (used for arena handles).
pub fn nat(v: usize) -> String {
    format!("{}%nat", v)
}

pub fn b(v: bool) -> String {
    if v { "true" } else { "false" }.to_string()
}

/// Coq string: `"..."%string`, `"` doubled, all other bytes verbatim.
pub fn s(v: &str) -> String {
    let mut out = String::with_capacity(v.len() + 10);
    out.push('"');
    for c in v.chars() {
        if c == '"' {
            out.push_str("\"\"");
        } else {
            out.push(c);
        }
    }
    out.push_str("\"%string");
    out
}

/// `None` / `(Some x)`; the argument is an already printed term.
pub fn opt(v: Option<String>) -> String {
    match v {
        None => "None".to_string(),
        Some(x) => format!("(Some {})", x),
    }
}

pub fn opt_s(v: Option<&str>) -> String {
    opt(v.map(s))
}

/// `[a; b; c]`
pub fn list<I: IntoIterator<Item = String>>(items: I) -> String {
    let v: Vec<String> = items.into_iter().collect();
    format!("[{}]", v.join("; "))
}

pub fn pair(a: &str, b: &str) -> String {
    format!("({}, {})", a, b)
}

pub fn triple(a: &str, b: &str, c: &str) -> String {
    format!("({}, {}, {})", a, b, c)
}

/// Constructor application `(C a b c)`; a bare `C` if there are no arguments.
pub fn app(ctor: &str, args: &[String]) -> String {
    if args.is_empty() {
        return ctor.to_string();
    }
    let mut out = String::new();
    out.push('(');
    out.push_str(ctor);
    for a in args {
        out.push(' ');
        out.push_str(a);
    }
    out.push(')');
    out
}
