//! Probe code generator for `driver batch` (see /verif/harness/BATCH_SPEC.md).
//!
//! [`scan`] reads the `syn` AST of a generated module leniently (it collects what it recognises
//! and ignores the rest - strict template checking is the job of `extract`), [`probe_code`] turns
//! that into the text of `p<i>.rs`: one function per observation *section*, so that a section
//! whose code does not compile can be dropped individually (the driver knows the line range of
//! every section).

use quote::ToTokens;
use serde_json::Value;

// ---------------------------------------------------------------------------------------------
// scanning
// ---------------------------------------------------------------------------------------------

#[derive(Debug, Clone)]
pub struct FieldInfo {
    pub name: String,
    pub ty: syn::Type,
    pub runtime_sized: bool,
}

#[derive(Debug, Clone)]
pub struct StructInfo {
    pub name: String,
    pub derives: Vec<String>,
    pub fields: Vec<FieldInfo>,
}

#[derive(Debug, Clone)]
pub struct ConstInfo {
    pub name: String,
    /// the declared type, spaces removed (`f32`, `&str`, `wgpu::ShaderStages`, `[u32;3]`)
    pub ty: String,
}

#[derive(Debug, Clone, Copy, PartialEq)]
pub enum ResKind {
    Buffer,
    TextureView,
    Sampler,
}

#[derive(Debug, Clone)]
pub struct GroupInfo {
    pub n: u32,
    /// fields of `BindGroupLayout<n>` in declaration order
    pub fields: Vec<(String, Option<ResKind>)>,
    pub has_from_bindings: bool,
    pub has_get_layout: bool,
    pub has_set: bool,
}

#[derive(Debug, Clone, PartialEq)]
pub enum Param {
    StepMode,
    Overrides,
    Targets,
    Other(String),
}

#[derive(Debug, Clone)]
pub struct EntryFn {
    pub name: String,
    pub params: Vec<Param>,
}

#[derive(Debug, Clone)]
pub struct OverrideField {
    pub name: String,
    /// `f32`, `i32`, `u32`, `bool`, `f64`, ...
    pub scalar: String,
    pub optional: bool,
}

#[derive(Debug, Default, Clone)]
pub struct ModuleInfo {
    pub structs: Vec<StructInfo>,
    pub consts: Vec<ConstInfo>,
    pub entry_consts: Vec<String>,
    pub has_source: bool,
    pub source_is_include: bool,
    pub has_pc_stages: bool,
    pub vertex_structs: Vec<String>,
    pub overrides: Option<Vec<OverrideField>>,
    pub groups: Vec<GroupInfo>,
    /// fields of `bind_groups::BindGroups` with the group number of their type
    pub bind_groups_fields: Option<Vec<(String, u32)>>,
    /// group numbers of the bind group parameters of `set_bind_groups`
    pub set_bind_groups: Option<Vec<u32>>,
    pub vertex_entries: Vec<EntryFn>,
    pub fragment_entries: Vec<EntryFn>,
    pub has_vertex_state: bool,
    pub has_fragment_state: bool,
    pub has_create_shader_module: bool,
    pub has_create_pipeline_layout: bool,
    pub compute_fns: Vec<String>,
    pub workgroup_consts: Vec<String>,
}

fn squash(t: &impl ToTokens) -> String {
    t.to_token_stream().to_string().replace(' ', "")
}

fn derives_of(attrs: &[syn::Attribute]) -> Vec<String> {
    let mut out = Vec::new();
    for a in attrs {
        if a.path().is_ident("derive") {
            let _ = a.parse_nested_meta(|m| {
                out.push(squash(&m.path));
                Ok(())
            });
        }
    }
    out
}

fn named_fields(st: &syn::ItemStruct) -> Vec<FieldInfo> {
    match &st.fields {
        syn::Fields::Named(f) => f
            .named
            .iter()
            .map(|f| FieldInfo {
                name: f.ident.as_ref().map(|i| i.to_string()).unwrap_or_default(),
                ty: f.ty.clone(),
                runtime_sized: f.attrs.iter().any(|a| a.path().is_ident("size")),
            })
            .collect(),
        _ => Vec::new(),
    }
}

fn numeric_suffix(name: &str, prefix: &str) -> Option<u32> {
    let rest = name.strip_prefix(prefix)?;
    if rest.is_empty() || !rest.bytes().all(|b| b.is_ascii_digit()) {
        return None;
    }
    rest.parse().ok()
}

/// last path segment of a (possibly referenced) type
fn last_ident(t: &syn::Type) -> Option<String> {
    match t {
        syn::Type::Reference(r) => last_ident(&r.elem),
        syn::Type::Path(p) => p.path.segments.last().map(|s| s.ident.to_string()),
        _ => None,
    }
}

fn return_ident(f: &syn::ItemFn) -> Option<String> {
    match &f.sig.output {
        syn::ReturnType::Type(_, t) => last_ident(t),
        syn::ReturnType::Default => None,
    }
}

fn entry_params(f: &syn::ItemFn) -> Vec<Param> {
    f.sig
        .inputs
        .iter()
        .map(|a| match a {
            syn::FnArg::Typed(pt) => {
                let s = squash(&pt.ty);
                if s == "wgpu::VertexStepMode" {
                    Param::StepMode
                } else if s == "&OverrideConstants" {
                    Param::Overrides
                } else if s.starts_with("[Option<wgpu::ColorTargetState>;") {
                    Param::Targets
                } else {
                    Param::Other(s)
                }
            }
            syn::FnArg::Receiver(_) => Param::Other("self".into()),
        })
        .collect()
}

fn scan_bind_groups(m: &syn::ItemMod, info: &mut ModuleInfo) {
    let Some((_, items)) = &m.content else { return };
    for it in items {
        match it {
            syn::Item::Struct(st) => {
                let name = st.ident.to_string();
                if let Some(n) = numeric_suffix(&name, "BindGroupLayout") {
                    let fields = named_fields(st)
                        .into_iter()
                        .map(|f| {
                            let s = squash(&f.ty);
                            let kind = if s == "wgpu::BufferBinding<'a>" {
                                Some(ResKind::Buffer)
                            } else if s == "&'awgpu::TextureView" {
                                Some(ResKind::TextureView)
                            } else if s == "&'awgpu::Sampler" {
                                Some(ResKind::Sampler)
                            } else {
                                None
                            };
                            (f.name, kind)
                        })
                        .collect();
                    info.groups.push(GroupInfo {
                        n,
                        fields,
                        has_from_bindings: false,
                        has_get_layout: false,
                        has_set: false,
                    });
                } else if name == "BindGroups" {
                    let fields = named_fields(st)
                        .into_iter()
                        .filter_map(|f| {
                            let n = numeric_suffix(&last_ident(&f.ty)?, "BindGroup")?;
                            Some((f.name, n))
                        })
                        .collect();
                    info.bind_groups_fields = Some(fields);
                }
            }
            syn::Item::Impl(im) if im.trait_.is_none() => {
                let Some(n) = last_ident(&im.self_ty).and_then(|s| numeric_suffix(&s, "BindGroup")) else {
                    continue;
                };
                let fns: Vec<String> = im
                    .items
                    .iter()
                    .filter_map(|i| match i {
                        syn::ImplItem::Fn(f) => Some(f.sig.ident.to_string()),
                        _ => None,
                    })
                    .collect();
                if let Some(g) = info.groups.iter_mut().find(|g| g.n == n) {
                    g.has_from_bindings = fns.iter().any(|f| f == "from_bindings");
                    g.has_get_layout = fns.iter().any(|f| f == "get_bind_group_layout");
                    g.has_set = fns.iter().any(|f| f == "set");
                }
            }
            _ => {}
        }
    }
}

/// Collects everything the probe generator understands from a generated module.
pub fn scan(file: &syn::File) -> ModuleInfo {
    let mut info = ModuleInfo::default();
    for it in &file.items {
        match it {
            syn::Item::Struct(st) => {
                let name = st.ident.to_string();
                let derives = derives_of(&st.attrs);
                let generic = !st.generics.params.is_empty();
                if name == "OverrideConstants" && derives.is_empty() {
                    let fields = named_fields(st)
                        .into_iter()
                        .map(|f| {
                            let s = squash(&f.ty);
                            match s.strip_prefix("Option<").and_then(|r| r.strip_suffix('>')) {
                                Some(inner) => OverrideField {
                                    name: f.name,
                                    scalar: inner.to_string(),
                                    optional: true,
                                },
                                None => OverrideField {
                                    name: f.name,
                                    scalar: s,
                                    optional: false,
                                },
                            }
                        })
                        .collect();
                    info.overrides = Some(fields);
                } else if generic && (name == "VertexEntry" || name == "FragmentEntry") {
                    // template structs
                } else if !generic && matches!(st.fields, syn::Fields::Named(_)) {
                    info.structs.push(StructInfo {
                        name,
                        derives,
                        fields: named_fields(st),
                    });
                }
            }
            syn::Item::Const(c) => {
                let name = c.ident.to_string();
                if name == "_" {
                    continue;
                }
                let ty = squash(&c.ty);
                if name == "SOURCE" && ty == "&str" {
                    info.has_source = true;
                    info.source_is_include = matches!(&*c.expr, syn::Expr::Macro(_));
                } else if name == "PUSH_CONSTANT_STAGES" && ty == "wgpu::ShaderStages" {
                    info.has_pc_stages = true;
                } else if name.starts_with("ENTRY_") && ty == "&str" {
                    info.entry_consts.push(name);
                } else {
                    info.consts.push(ConstInfo { name, ty });
                }
            }
            syn::Item::Impl(im) if im.trait_.is_none() => {
                let Some(name) = last_ident(&im.self_ty) else { continue };
                let has_attrs = im.items.iter().any(
                    |i| matches!(i, syn::ImplItem::Const(c) if c.ident == "VERTEX_ATTRIBUTES"),
                );
                let has_layout = im.items.iter().any(
                    |i| matches!(i, syn::ImplItem::Fn(f) if f.sig.ident == "vertex_buffer_layout"),
                );
                if has_attrs && has_layout {
                    info.vertex_structs.push(name);
                }
            }
            syn::Item::Mod(m) if m.ident == "bind_groups" => scan_bind_groups(m, &mut info),
            syn::Item::Mod(m) if m.ident == "compute" => {
                if let Some((_, items)) = &m.content {
                    for it in items {
                        match it {
                            syn::Item::Const(c) if c.ident.to_string().ends_with("_WORKGROUP_SIZE") => {
                                info.workgroup_consts.push(c.ident.to_string())
                            }
                            syn::Item::Fn(f) => {
                                let n = f.sig.ident.to_string();
                                if n.starts_with("create_") && n.ends_with("_pipeline") {
                                    info.compute_fns.push(n);
                                }
                            }
                            _ => {}
                        }
                    }
                }
            }
            syn::Item::Fn(f) => {
                let name = f.sig.ident.to_string();
                match name.as_str() {
                    "vertex_state" => info.has_vertex_state = true,
                    "fragment_state" => info.has_fragment_state = true,
                    "create_shader_module" => info.has_create_shader_module = true,
                    "create_pipeline_layout" => info.has_create_pipeline_layout = true,
                    "set_bind_groups" => {
                        let groups = f
                            .sig
                            .inputs
                            .iter()
                            .filter_map(|a| match a {
                                syn::FnArg::Typed(pt) => numeric_suffix(&last_ident(&pt.ty)?, "BindGroup"),
                                _ => None,
                            })
                            .collect();
                        info.set_bind_groups = Some(groups);
                    }
                    _ => match return_ident(f).as_deref() {
                        Some("VertexEntry") => info.vertex_entries.push(EntryFn {
                            name,
                            params: entry_params(f),
                        }),
                        Some("FragmentEntry") => info.fragment_entries.push(EntryFn {
                            name,
                            params: entry_params(f),
                        }),
                        _ => {}
                    },
                }
            }
            _ => {}
        }
    }
    info.groups.sort_by_key(|g| g.n);
    info
}

// ---------------------------------------------------------------------------------------------
// values
// ---------------------------------------------------------------------------------------------

const SCALARS: [&str; 10] = ["f32", "f64", "i8", "u8", "i16", "u16", "i32", "u32", "i64", "u64"];

/// (name, scalar, number of components, is a matrix)
const GLAM: [(&str, &str, usize, bool); 18] = [
    ("Vec2", "f32", 2, false),
    ("Vec3", "f32", 3, false),
    ("Vec4", "f32", 4, false),
    ("DVec2", "f64", 2, false),
    ("DVec3", "f64", 3, false),
    ("DVec4", "f64", 4, false),
    ("UVec2", "u32", 2, false),
    ("UVec3", "u32", 3, false),
    ("UVec4", "u32", 4, false),
    ("IVec2", "i32", 2, false),
    ("IVec3", "i32", 3, false),
    ("IVec4", "i32", 4, false),
    ("Mat2", "f32", 4, true),
    ("Mat3", "f32", 9, true),
    ("Mat4", "f32", 16, true),
    ("DMat2", "f64", 4, true),
    ("DMat3", "f64", 9, true),
    ("DMat4", "f64", 16, true),
];

fn generic_args(seg: &syn::PathSegment) -> Vec<String> {
    match &seg.arguments {
        syn::PathArguments::AngleBracketed(a) => a.args.iter().map(|a| squash(a)).collect(),
        _ => Vec::new(),
    }
}

/// An expression of type `t` whose scalar components are taken from the counter `c` in
/// field / element order (see BATCH_SPEC.md, "Component order"). `rts` is the expression for the
/// length of a runtime-sized `Vec`.
fn value_expr(t: &syn::Type, structs: &[StructInfo], rts: &str, depth: usize) -> Result<String, String> {
    if depth > 32 {
        return Err("type nesting too deep".into());
    }
    let unsupported = || Err(format!("no value builder for type `{}`", squash(t)));
    match t {
        syn::Type::Array(a) => {
            let elem = value_expr(&a.elem, structs, rts, depth + 1)?;
            Ok(format!("[(); {}].map(|_| {})", squash(&a.len), elem))
        }
        syn::Type::Path(tp) if tp.qself.is_none() => {
            let segs: Vec<&syn::PathSegment> = tp.path.segments.iter().collect();
            match segs.as_slice() {
                [seg] => {
                    let name = seg.ident.to_string();
                    let args = generic_args(seg);
                    if name == "Vec" && args.len() == 1 {
                        if let syn::PathArguments::AngleBracketed(a) = &seg.arguments {
                            if let Some(syn::GenericArgument::Type(elem)) = a.args.first() {
                                let e = value_expr(elem, structs, rts, depth + 1)?;
                                return Ok(format!(
                                    "(0..{}).map(|_| {}).collect::<::std::vec::Vec<_>>()",
                                    rts, e
                                ));
                            }
                        }
                        return unsupported();
                    }
                    if !args.is_empty() {
                        return unsupported();
                    }
                    if SCALARS.contains(&name.as_str()) {
                        return Ok(format!("c.{}()", name));
                    }
                    if name == "bool" {
                        return Ok("false".into());
                    }
                    match structs.iter().find(|s| s.name == name) {
                        Some(s) => {
                            let mut fields = Vec::new();
                            for f in &s.fields {
                                fields.push(format!(
                                    "{}: {}",
                                    f.name,
                                    value_expr(&f.ty, structs, rts, depth + 1)?
                                ));
                            }
                            Ok(format!("m::{} {{ {} }}", name, fields.join(", ")))
                        }
                        None => unsupported(),
                    }
                }
                [krate, seg] if krate.ident == "glam" => {
                    let name = seg.ident.to_string();
                    match GLAM.iter().find(|g| g.0 == name) {
                        Some((_, scalar, n, false)) => {
                            let comps = vec![format!("c.{}()", scalar); *n].join(", ");
                            Ok(format!("::glam::{}::new({})", name, comps))
                        }
                        Some((_, scalar, n, true)) => Ok(format!(
                            "::glam::{}::from_cols_array(&[(); {}].map(|_| c.{}()))",
                            name, n, scalar
                        )),
                        None => unsupported(),
                    }
                }
                [krate, seg] if krate.ident == "nalgebra" => {
                    let name = seg.ident.to_string();
                    let args = generic_args(seg);
                    let (scalar, rows, cols) = match (name.as_str(), args.as_slice()) {
                        ("SVector", [s, n]) => (s.clone(), n.clone(), "1".to_string()),
                        ("SMatrix", [s, r, c]) => (s.clone(), r.clone(), c.clone()),
                        _ => return unsupported(),
                    };
                    if !SCALARS.contains(&scalar.as_str()) {
                        return unsupported();
                    }
                    Ok(format!(
                        "::nalgebra::SMatrix([(); {}].map(|_| [(); {}].map(|_| c.{}())))",
                        cols, rows, scalar
                    ))
                }
                _ => unsupported(),
            }
        }
        _ => unsupported(),
    }
}

/// Rust literal of scalar type `scalar` for the JSON value of an override assignment.
fn scalar_literal(scalar: &str, v: &Value) -> Result<String, String> {
    let bad = || Err(format!("value `{}` is not usable for type `{}`", v, scalar));
    match scalar {
        "bool" => match v {
            Value::Bool(b) => Ok(b.to_string()),
            Value::Number(n) => Ok((n.as_f64().unwrap_or(0.0) != 0.0).to_string()),
            _ => bad(),
        },
        "f32" | "f64" => {
            let special = |name: &str| format!("{}::{}", scalar, name);
            match v {
                Value::Number(n) => {
                    let x = n.as_f64().ok_or_else(|| "not a number".to_string())?;
                    if scalar == "f32" {
                        Ok(format!("{:?}f32", x as f32))
                    } else {
                        Ok(format!("{:?}f64", x))
                    }
                }
                Value::String(s) => match s.to_ascii_lowercase().as_str() {
                    "nan" => Ok(special("NAN")),
                    "inf" | "+inf" | "infinity" => Ok(special("INFINITY")),
                    "-inf" | "-infinity" => Ok(special("NEG_INFINITY")),
                    _ => bad(),
                },
                Value::Object(o) => match o.get("bits").and_then(Value::as_u64) {
                    Some(bits) if scalar == "f32" && bits <= u32::MAX as u64 => {
                        Ok(format!("f32::from_bits({}u32)", bits))
                    }
                    Some(bits) if scalar == "f64" => Ok(format!("f64::from_bits({}u64)", bits)),
                    _ => bad(),
                },
                _ => bad(),
            }
        }
        "i8" | "i16" | "i32" | "i64" | "u8" | "u16" | "u32" | "u64" => {
            let (min, max): (i128, i128) = match scalar {
                "i8" => (i8::MIN as i128, i8::MAX as i128),
                "i16" => (i16::MIN as i128, i16::MAX as i128),
                "i32" => (i32::MIN as i128, i32::MAX as i128),
                "i64" => (i64::MIN as i128, i64::MAX as i128),
                "u8" => (0, u8::MAX as i128),
                "u16" => (0, u16::MAX as i128),
                "u32" => (0, u32::MAX as i128),
                _ => (0, u64::MAX as i128),
            };
            let x: i128 = match v {
                Value::Number(n) => {
                    if let Some(i) = n.as_i64() {
                        i as i128
                    } else if let Some(u) = n.as_u64() {
                        u as i128
                    } else {
                        return bad();
                    }
                }
                Value::Bool(b) => *b as i128,
                _ => return bad(),
            };
            if x < min || x > max {
                return Err(format!("value {} is out of range for `{}`", x, scalar));
            }
            Ok(format!("{}{}", x, scalar))
        }
        _ => bad(),
    }
}

/// `m::OverrideConstants { .. }` for one assignment.
fn override_expr(fields: &[OverrideField], assignment: &Value) -> Result<String, String> {
    let obj = assignment
        .as_object()
        .ok_or_else(|| "assignment is not an object".to_string())?;
    let mut inits = Vec::new();
    for f in fields {
        let v = obj.get(&f.name);
        let init = match (f.optional, v) {
            (true, None) | (true, Some(Value::Null)) => "::core::option::Option::None".to_string(),
            (true, Some(v)) => format!("::core::option::Option::Some({})", scalar_literal(&f.scalar, v)?),
            (false, None) | (false, Some(Value::Null)) => "::core::default::Default::default()".to_string(),
            (false, Some(v)) => scalar_literal(&f.scalar, v)?,
        };
        inits.push(format!("{}: {}", f.name, init));
    }
    Ok(format!("m::OverrideConstants {{ {} }}", inits.join(", ")))
}

// ---------------------------------------------------------------------------------------------
// code generation
// ---------------------------------------------------------------------------------------------

/// One observation section: `fn <fn_name>() -> J { .. }`.
#[derive(Debug, Clone)]
pub struct Section {
    /// key in the observation object
    pub key: &'static str,
    pub code: String,
}

#[derive(Debug, Clone)]
pub struct ProbePlan {
    pub index: usize,
    pub id_json: String,
    /// the `mod ty { .. }` block with one alias per struct field; belongs to section `structs`
    pub ty_mod: String,
    pub sections: Vec<Section>,
}

/// Rust string literal
fn lit(s: &str) -> String {
    format!("{:?}", s)
}

const IMPL_TRAITS: [(&str, &str); 9] = [
    ("Copy", "::core::marker::Copy"),
    ("Clone", "::core::clone::Clone"),
    ("Debug", "::core::fmt::Debug"),
    ("PartialEq", "::core::cmp::PartialEq"),
    ("Pod", "::bytemuck::Pod"),
    ("Zeroable", "::bytemuck::Zeroable"),
    ("ShaderType", "::encase::ShaderType"),
    ("Serialize", "::serde::Serialize"),
    ("Deserialize", "::serde::de::DeserializeOwned"),
];

fn sec_structs(info: &ModuleInfo, index: usize) -> (String, String) {
    let mut ty_mod = String::new();
    ty_mod.push_str("mod ty {\n    #![allow(unused_imports, dead_code, non_camel_case_types)]\n");
    ty_mod.push_str(&format!("    use crate::m{}::*;\n", index));
    let mut code = String::new();
    code.push_str("fn sec_structs() -> J {\n    let krate = pr_crate_name();\n    let mut all = J::obj();\n");
    for (si, s) in info.structs.iter().enumerate() {
        code.push_str("    {\n");
        code.push_str(&format!("        type T = m::{};\n", s.name));
        code.push_str("        let mut fields: ::std::vec::Vec<J> = ::std::vec::Vec::new();\n");
        for (fi, f) in s.fields.iter().enumerate() {
            let alias = format!("W2wProbeS{}F{}", si, fi);
            ty_mod.push_str(&format!("    pub type {} = {};\n", alias, f.ty.to_token_stream()));
            code.push_str(&format!(
                "        fields.push(field_json({}, ::core::mem::offset_of!(m::{}, {}), ::core::mem::size_of::<ty::{a}>(), ::core::mem::align_of::<ty::{a}>(), ::core::any::type_name::<ty::{a}>(), &krate));\n",
                lit(&f.name),
                s.name,
                f.name,
                a = alias
            ));
        }
        code.push_str("        let impls = J::obj()\n");
        for (key, path) in IMPL_TRAITS {
            code.push_str(&format!(
                "            .put({}, J::Bool(::wgpu::probe_has_impl!(T: {})))\n",
                lit(key),
                path
            ));
        }
        code.push_str("            .done();\n");
        code.push_str(&format!(
            "        all.set({}, J::obj().put(\"size\", J::usize(::core::mem::size_of::<T>())).put(\"align\", J::usize(::core::mem::align_of::<T>())).put(\"fields\", J::Arr(fields)).put(\"impls\", impls).done());\n",
            lit(&s.name)
        ));
        code.push_str("    }\n");
    }
    code.push_str("    all.done()\n}\n");
    ty_mod.push_str("}\n");
    (ty_mod, code)
}

fn sec_consts(info: &ModuleInfo) -> String {
    let mut code = String::from("fn sec_consts() -> J {\n    let mut all = J::obj();\n");
    for c in &info.consts {
        let value = match c.ty.as_str() {
            "f32" | "f64" => format!("J::uint(m::{}.to_bits())", c.name),
            "bool" => format!("J::uint(m::{} as u8)", c.name),
            "i8" | "i16" | "i32" | "i64" | "i128" | "u8" | "u16" | "u32" | "u64" | "u128" | "usize" | "isize" => {
                format!("J::Str(::std::format!(\"{{}}\", m::{}))", c.name)
            }
            _ => format!("J::Str(::std::format!(\"{{:?}}\", m::{}))", c.name),
        };
        code.push_str(&format!(
            "    all.set({}, J::obj().put(\"type_name\", J::str({})).put(\"bits\", {}).done());\n",
            lit(&c.name),
            lit(&c.ty),
            value
        ));
    }
    code.push_str("    all.done()\n}\n");
    code
}

fn sec_source(info: &ModuleInfo, index: usize) -> String {
    let body = if info.has_source && !info.source_is_include {
        format!(
            "J::Bool(m::SOURCE.as_bytes() == &include_bytes!(\"wgsl{}.wgsl\")[..])",
            index
        )
    } else {
        "J::Null".to_string()
    };
    format!("fn sec_source_matches() -> J {{\n    {}\n}}\n", body)
}

fn sec_entry_consts(info: &ModuleInfo) -> String {
    let mut code = String::from("fn sec_entry_consts() -> J {\n    let mut all = J::obj();\n");
    for c in &info.entry_consts {
        code.push_str(&format!("    all.set({}, J::str(m::{}));\n", lit(c), c));
    }
    code.push_str("    all.done()\n}\n");
    code
}

fn sec_pc_stages(info: &ModuleInfo) -> String {
    let body = if info.has_pc_stages {
        "J::uint(m::PUSH_CONSTANT_STAGES.bits())"
    } else {
        "J::Null"
    };
    format!("fn sec_push_constant_stages() -> J {{\n    {}\n}}\n", body)
}

fn sec_vertex_structs(info: &ModuleInfo) -> String {
    let mut code = String::from("fn sec_vertex_structs() -> J {\n    let mut all = J::obj();\n");
    for name in &info.vertex_structs {
        code.push_str(&format!(
            "    {{\n        let attrs = &m::{n}::VERTEX_ATTRIBUTES[..];\n        let lv = m::{n}::vertex_buffer_layout(::wgpu::VertexStepMode::Vertex);\n        let li = m::{n}::vertex_buffer_layout(::wgpu::VertexStepMode::Instance);\n        all.set({l}, J::obj().put(\"attributes\", pr::vertex_attributes_json(attrs)).put(\"layout_vertex\", layout_summary(&lv, attrs)).put(\"layout_instance\", layout_summary(&li, attrs)).done());\n    }}\n",
            n = name,
            l = lit(name)
        ));
    }
    code.push_str("    all.done()\n}\n");
    code
}

/// The override assignments of a case; if the module has overrides but the case gives none, one
/// synthetic assignment `{}` (required fields `Default::default()`, optional fields `None`).
fn assignments(info: &ModuleInfo, case: &Value) -> Vec<Value> {
    if info.overrides.is_none() {
        return Vec::new();
    }
    let given: Vec<Value> = case
        .get("override_assignments")
        .and_then(Value::as_array)
        .cloned()
        .unwrap_or_default();
    if given.is_empty() {
        vec![Value::Object(Default::default())]
    } else {
        given
    }
}

/// `fn ov0() -> m::OverrideConstants` (first usable assignment) if the module has overrides.
fn ov0_fn(info: &ModuleInfo, case: &Value) -> Option<String> {
    let fields = info.overrides.as_ref()?;
    let expr = assignments(info, case)
        .iter()
        .find_map(|a| override_expr(fields, a).ok())
        .or_else(|| override_expr(fields, &Value::Object(Default::default())).ok())?;
    Some(format!("fn ov0() -> m::OverrideConstants {{\n    {}\n}}\n", expr))
}

fn sec_overrides(info: &ModuleInfo, case: &Value) -> String {
    let mut code = String::from(
        "fn sec_overrides() -> J {\n    let mut all: ::std::vec::Vec<J> = ::std::vec::Vec::new();\n",
    );
    if let Some(fields) = &info.overrides {
        for a in assignments(info, case) {
            let a_json = lit(&a.to_string());
            match override_expr(fields, &a) {
                Ok(expr) => code.push_str(&format!(
                    "    {{\n        let ov = {};\n        all.push(J::obj().put(\"assignment\", J::Raw({}.into())).put(\"constants\", pr::constants_json(&ov.constants())).done());\n    }}\n",
                    expr, a_json
                )),
                Err(e) => code.push_str(&format!(
                    "    all.push(J::obj().put(\"assignment\", J::Raw({}.into())).put(\"constants\", J::Null).put(\"error\", J::str({})).done());\n",
                    a_json,
                    lit(&e)
                )),
            }
        }
    }
    code.push_str("    J::Arr(all)\n}\n");
    code
}

fn entry_call(e: &EntryFn, has_ov: bool) -> Result<String, String> {
    let mut args = Vec::new();
    let mut step = 0;
    for p in &e.params {
        match p {
            Param::StepMode => {
                args.push(
                    if step % 2 == 0 {
                        "::wgpu::VertexStepMode::Vertex"
                    } else {
                        "::wgpu::VertexStepMode::Instance"
                    }
                    .to_string(),
                );
                step += 1;
            }
            Param::Overrides if has_ov => args.push("&ov0()".to_string()),
            Param::Overrides => return Err("`overrides` parameter but no OverrideConstants struct".into()),
            Param::Targets => args.push("targets.clone()".to_string()),
            Param::Other(t) => return Err(format!("unknown parameter type `{}`", t)),
        }
    }
    Ok(format!("m::{}({})", e.name, args.join(", ")))
}

fn sec_vertex_entries(info: &ModuleInfo) -> String {
    let mut code = String::from("fn sec_vertex_entries() -> J {\n    let mut all = J::obj();\n");
    for e in &info.vertex_entries {
        match entry_call(e, info.overrides.is_some()) {
            Ok(call) => {
                code.push_str(&format!("    {{\n        let e = {};\n", call));
                code.push_str("        let mut o = J::obj()\n            .put(\"entry_point\", J::str(e.entry_point))\n            .put(\"n\", J::usize(e.buffers.len()))\n            .put(\"buffers\", J::arr(e.buffers.iter().map(pr::vertex_buffer_layout_json)))\n            .put(\"constants\", pr::constants_json(&e.constants));\n");
                if info.has_vertex_state {
                    code.push_str("        let module = ::wgpu::ShaderModule::probe_new(\"probe\");\n        let st = m::vertex_state(&module, &e);\n        o.set(\"vertex_state\", J::obj()\n            .put(\"entry_point\", J::opt_str(st.entry_point))\n            .put(\"buffers_len\", J::usize(st.buffers.len()))\n            .put(\"buffers_same\", J::Bool(st.buffers == &e.buffers[..]))\n            .put(\"constants_same\", J::Bool(*st.compilation_options.constants == e.constants))\n            .put(\"zero_initialize_workgroup_memory\", J::Bool(st.compilation_options.zero_initialize_workgroup_memory))\n            .put(\"module_same\", J::Bool(st.module.probe_id() == module.probe_id()))\n            .done());\n");
                }
                code.push_str(&format!("        all.set({}, o.done());\n    }}\n", lit(&e.name)));
            }
            Err(why) => code.push_str(&format!(
                "    all.set({}, J::obj().put(\"skipped\", J::str({})).done());\n",
                lit(&e.name),
                lit(&why)
            )),
        }
    }
    code.push_str("    all.done()\n}\n");
    code
}

fn sec_fragment_entries(info: &ModuleInfo) -> String {
    let mut code = String::from("fn sec_fragment_entries() -> J {\n    let mut all = J::obj();\n");
    for e in &info.fragment_entries {
        let has_targets = e.params.iter().filter(|p| **p == Param::Targets).count() == 1;
        match entry_call(e, info.overrides.is_some()) {
            Ok(call) if has_targets => {
                code.push_str("    {\n        let targets = color_targets();\n");
                code.push_str(&format!("        let e = {};\n", call));
                code.push_str("        let mut o = J::obj()\n            .put(\"entry_point\", J::str(e.entry_point))\n            .put(\"n\", J::usize(e.targets.len()))\n            .put(\"targets_same\", J::Bool(e.targets == targets))\n            .put(\"constants\", pr::constants_json(&e.constants));\n");
                if info.has_fragment_state {
                    code.push_str("        let module = ::wgpu::ShaderModule::probe_new(\"probe\");\n        let st = m::fragment_state(&module, &e);\n        o.set(\"fragment_state\", J::obj()\n            .put(\"entry_point\", J::opt_str(st.entry_point))\n            .put(\"targets_len\", J::usize(st.targets.len()))\n            .put(\"targets_same\", J::Bool(st.targets == &e.targets[..]))\n            .put(\"constants_same\", J::Bool(*st.compilation_options.constants == e.constants))\n            .put(\"zero_initialize_workgroup_memory\", J::Bool(st.compilation_options.zero_initialize_workgroup_memory))\n            .put(\"module_same\", J::Bool(st.module.probe_id() == module.probe_id()))\n            .done());\n");
                }
                code.push_str(&format!("        all.set({}, o.done());\n    }}\n", lit(&e.name)));
            }
            Ok(_) => code.push_str(&format!(
                "    all.set({}, J::obj().put(\"skipped\", J::str(\"no `targets` parameter\")).done());\n",
                lit(&e.name)
            )),
            Err(why) => code.push_str(&format!(
                "    all.set({}, J::obj().put(\"skipped\", J::str({})).done());\n",
                lit(&e.name),
                lit(&why)
            )),
        }
    }
    code.push_str("    all.done()\n}\n");
    code
}

const PASSES: [&str; 3] = ["ComputePass", "RenderPass", "RenderBundleEncoder"];

fn sec_device_log(info: &ModuleInfo) -> String {
    let mut c = String::from("fn sec_device_log() -> J {\n    let device = ::wgpu::Device::probe_new();\n    let mut o = J::obj();\n    pr::drain();\n");
    if info.has_create_shader_module {
        c.push_str("    {\n        let _module = m::create_shader_module(&device);\n        o.set(\"create_shader_module\", pr::obs_create_shader_module(&pr::drain()));\n    }\n");
    } else {
        c.push_str("    o.set(\"create_shader_module\", J::Null);\n");
    }
    // layouts
    c.push_str("    let mut layouts: ::std::vec::Vec<J> = ::std::vec::Vec::new();\n");
    for g in info.groups.iter().filter(|g| g.has_get_layout) {
        c.push_str(&format!(
            "    {{\n        let _layout = m::bind_groups::BindGroup{n}::get_bind_group_layout(&device);\n        layouts.push(pr::obs_get_bind_group_layout({n}, &pr::drain()));\n    }}\n",
            n = g.n
        ));
    }
    c.push_str("    o.set(\"layouts\", J::Arr(layouts));\n");
    // bind groups
    c.push_str("    let mut groups: ::std::vec::Vec<(u64, u32)> = ::std::vec::Vec::new();\n    let mut bind_groups: ::std::vec::Vec<J> = ::std::vec::Vec::new();\n");
    let mut built: Vec<u32> = Vec::new();
    for g in &info.groups {
        let usable = g.has_from_bindings && g.fields.iter().all(|(_, k)| k.is_some());
        if !usable {
            c.push_str(&format!(
                "    bind_groups.push(J::obj().put(\"group\", J::uint({}u32)).put(\"from_bindings\", J::Null).put(\"skipped\", J::str(\"unrecognised layout struct\")).done());\n",
                g.n
            ));
            continue;
        }
        let mut inits = Vec::new();
        let mut tags = Vec::new();
        for (k, (name, kind)) in g.fields.iter().enumerate() {
            let tag = 1000 * (g.n as u64 + 1) + k as u64;
            let var = format!("r{}_{}", g.n, k);
            let (ty, init) = match kind.unwrap() {
                ResKind::Buffer => (
                    "Buffer",
                    format!(
                        "{}: ::wgpu::BufferBinding {{ buffer: &{}, offset: {}, size: ::core::option::Option::None }}",
                        name,
                        var,
                        256 * k
                    ),
                ),
                ResKind::TextureView => ("TextureView", format!("{}: &{}", name, var)),
                ResKind::Sampler => ("Sampler", format!("{}: &{}", name, var)),
            };
            c.push_str(&format!("    let {} = ::wgpu::{}::probe_new({});\n", var, ty, tag));
            inits.push(init);
            tags.push(format!("({}, {})", tag, lit(name)));
        }
        c.push_str(&format!(
            "    let bg{n} = m::bind_groups::BindGroup{n}::from_bindings(&device, m::bind_groups::BindGroupLayout{n} {{ {inits} }});\n    {{\n        let (j, id) = pr::obs_from_bindings({n}, &pr::drain(), &[{tags}]);\n        bind_groups.push(j);\n        if let ::core::option::Option::Some(id) = id {{\n            groups.push((id, {n}));\n        }}\n    }}\n",
            n = g.n,
            inits = inits.join(", "),
            tags = tags.join(", ")
        ));
        built.push(g.n);
    }
    c.push_str("    o.set(\"bind_groups\", J::Arr(bind_groups));\n");
    // set
    c.push_str("    let mut sets: ::std::vec::Vec<J> = ::std::vec::Vec::new();\n");
    for g in info.groups.iter().filter(|g| g.has_set && built.contains(&g.n)) {
        for pass in PASSES {
            c.push_str(&format!(
                "    {{\n        let mut pass = ::wgpu::{p}::probe_new();\n        bg{n}.set(&mut pass);\n        sets.push(pr::obs_set(\"BindGroup{n}::set\", \"{p}\", &pr::drain(), &groups));\n    }}\n",
                p = pass,
                n = g.n
            ));
        }
    }
    if let Some(params) = &info.set_bind_groups {
        if params.iter().all(|n| built.contains(n)) && !params.is_empty() {
            let args: Vec<String> = params.iter().map(|n| format!("&bg{}", n)).collect();
            for pass in PASSES {
                c.push_str(&format!(
                    "    {{\n        let mut pass = ::wgpu::{p}::probe_new();\n        m::set_bind_groups(&mut pass, {a});\n        sets.push(pr::obs_set(\"set_bind_groups\", \"{p}\", &pr::drain(), &groups));\n    }}\n",
                    p = pass,
                    a = args.join(", ")
                ));
            }
        }
    }
    if let Some(fields) = &info.bind_groups_fields {
        if fields.iter().all(|(_, n)| built.contains(n)) && !fields.is_empty() {
            let inits: Vec<String> = fields.iter().map(|(f, n)| format!("{}: &bg{}", f, n)).collect();
            for pass in PASSES {
                c.push_str(&format!(
                    "    {{\n        let mut pass = ::wgpu::{p}::probe_new();\n        m::bind_groups::BindGroups {{ {i} }}.set(&mut pass);\n        sets.push(pr::obs_set(\"BindGroups::set\", \"{p}\", &pr::drain(), &groups));\n    }}\n",
                    p = pass,
                    i = inits.join(", ")
                ));
            }
        }
    }
    c.push_str("    o.set(\"set\", J::Arr(sets));\n");
    if info.has_create_pipeline_layout {
        c.push_str("    {\n        let _layout = m::create_pipeline_layout(&device);\n        o.set(\"pipeline_layout\", pr::obs_pipeline_layout(&pr::drain()));\n    }\n");
    } else {
        c.push_str("    o.set(\"pipeline_layout\", J::Null);\n");
    }
    c.push_str("    let mut pipelines = J::obj();\n");
    for f in &info.compute_fns {
        c.push_str(&format!(
            "    {{\n        let _pipeline = m::compute::{f}(&device);\n        pipelines.set({l}, pr::obs_compute_pipeline(&pr::drain(), m::SOURCE));\n    }}\n",
            f = f,
            l = lit(f)
        ));
    }
    c.push_str("    o.set(\"compute_pipelines\", pipelines.done());\n    o.done()\n}\n");
    c
}

fn sec_workgroup_sizes(info: &ModuleInfo) -> String {
    let mut code = String::from("fn sec_workgroup_sizes() -> J {\n    let mut all = J::obj();\n");
    for c in &info.workgroup_consts {
        code.push_str(&format!(
            "    all.set({}, J::arr(m::compute::{}.iter().map(|v| J::uint(*v))));\n",
            lit(c),
            c
        ));
    }
    code.push_str("    all.done()\n}\n");
    code
}

fn rts_lengths(case: &Value) -> Vec<u64> {
    let given: Vec<u64> = case
        .get("rts_lengths")
        .and_then(Value::as_array)
        .map(|a| a.iter().filter_map(Value::as_u64).collect())
        .unwrap_or_default();
    if given.is_empty() {
        vec![0, 1, 3]
    } else {
        given
    }
}

fn sec_encase(info: &ModuleInfo, case: &Value) -> String {
    let mut code = String::from("fn sec_encase() -> J {\n    let mut all = J::obj();\n");
    for s in info
        .structs
        .iter()
        .filter(|s| s.derives.iter().any(|d| d == "encase::ShaderType"))
    {
        let ty: syn::Type = match syn::parse_str(&s.name) {
            Ok(t) => t,
            Err(_) => continue,
        };
        let has_rts = s.fields.iter().any(|f| f.runtime_sized || squash(&f.ty).starts_with("Vec<"));
        match value_expr(&ty, &info.structs, "rts_len", 0) {
            Ok(expr) => {
                let lens = if has_rts {
                    rts_lengths(case)
                        .iter()
                        .map(|l| format!("::core::option::Option::Some({}usize)", l))
                        .collect::<Vec<_>>()
                        .join(", ")
                } else {
                    "::core::option::Option::None".to_string()
                };
                code.push_str(&format!(
                    "    {{\n        let mut runs: ::std::vec::Vec<J> = ::std::vec::Vec::new();\n        for rts in [{lens}] {{\n            let rts: ::core::option::Option<usize> = rts;\n            let rts_len: usize = rts.unwrap_or(0);\n            let c = pr::Counter::new();\n            let c = &c;\n            let v: m::{name} = {expr};\n            runs.push(crate::support::encase_obs(&v, rts, c));\n        }}\n        all.set({l}, J::Arr(runs));\n    }}\n",
                    lens = lens,
                    name = s.name,
                    expr = expr,
                    l = lit(&s.name)
                ));
            }
            Err(why) => code.push_str(&format!(
                "    all.set({}, J::obj().put(\"skipped\", J::str({})).done());\n",
                lit(&s.name),
                lit(&why)
            )),
        }
    }
    code.push_str("    all.done()\n}\n");
    code
}

/// Builds the probe plan of module `index` (`case` supplies `id`, `override_assignments`,
/// `rts_lengths`).
pub fn plan(info: &ModuleInfo, index: usize, case: &Value) -> ProbePlan {
    let id_json = case.get("id").cloned().unwrap_or(Value::Null).to_string();
    let (ty_mod, structs) = sec_structs(info, index);
    let mut entries_prelude = String::new();
    if let Some(f) = ov0_fn(info, case) {
        entries_prelude = f;
    }
    let sections = vec![
        Section {
            key: "structs",
            code: structs,
        },
        Section {
            key: "consts",
            code: sec_consts(info),
        },
        Section {
            key: "source_matches",
            code: sec_source(info, index),
        },
        Section {
            key: "entry_consts",
            code: sec_entry_consts(info),
        },
        Section {
            key: "push_constant_stages",
            code: sec_pc_stages(info),
        },
        Section {
            key: "vertex_structs",
            code: sec_vertex_structs(info),
        },
        Section {
            key: "overrides",
            code: sec_overrides(info, case),
        },
        Section {
            key: "vertex_entries",
            code: format!("{}{}", entries_prelude, sec_vertex_entries(info)),
        },
        Section {
            key: "fragment_entries",
            code: sec_fragment_entries(info),
        },
        Section {
            key: "device_log",
            code: sec_device_log(info),
        },
        Section {
            key: "workgroup_sizes",
            code: sec_workgroup_sizes(info),
        },
        Section {
            key: "encase",
            code: sec_encase(info, case),
        },
    ];
    let mut sections = sections;
    // test hook: `W2W_BATCH_TEST_BREAK=<section>` makes that section of every probe fail to
    // compile, `W2W_BATCH_TEST_BREAK=abort:<section>` makes it abort the process in every module
    // with an odd number (exercises section dropping / crash recovery of `driver batch`)
    if let Ok(spec) = std::env::var("W2W_BATCH_TEST_BREAK") {
        for s in sections.iter_mut() {
            if spec == s.key {
                s.code.push_str("fn w2w_test_break() -> u32 {\n    \"not a number\"\n}\n");
            } else if spec.strip_prefix("abort:") == Some(s.key) && index % 2 == 1 {
                let head = format!("fn sec_{}() -> J {{\n", s.key);
                s.code = s.code.replacen(&head, &format!("{}    ::std::process::abort();\n", head), 1);
            }
        }
    }
    ProbePlan {
        index,
        id_json,
        ty_mod,
        sections,
    }
}

/// Text of `p<i>.rs` plus, per section key, the inclusive 1-based line range of its code.
/// Sections in `dropped` are replaced by a stub returning `null`.
pub struct Rendered {
    pub text: String,
    pub ranges: Vec<(&'static str, usize, usize)>,
}

pub fn render(plan: &ProbePlan, dropped: &[(String, String)]) -> Rendered {
    let is_dropped = |key: &str| dropped.iter().any(|(k, _)| k == key);
    let mut text = String::new();
    let mut ranges = Vec::new();
    text.push_str(&format!(
        "// generated by `driver batch`: probe for module m{i}\n#![allow(dead_code, unused, non_snake_case, non_camel_case_types, non_upper_case_globals)]\nuse crate::m{i} as m;\nuse crate::support::*;\nuse ::wgpu::probe as pr;\nuse ::wgpu::probe::J;\n\n",
        i = plan.index
    ));
    let count_lines = |t: &str| t.matches('\n').count();
    // the aliases belong to `structs`
    if !is_dropped("structs") {
        let start = count_lines(&text) + 1;
        text.push_str(&plan.ty_mod);
        ranges.push(("structs", start, count_lines(&text)));
        text.push('\n');
    }
    // `ov0` is shared by the two entry sections; it lives in `vertex_entries`' code block, so keep
    // a copy when only that one is dropped
    for s in &plan.sections {
        if is_dropped(s.key) {
            if s.key == "vertex_entries" && !is_dropped("fragment_entries") {
                if let Some(end) = s.code.find("fn sec_vertex_entries") {
                    text.push_str(&s.code[..end]);
                }
            }
            continue;
        }
        let start = count_lines(&text) + 1;
        text.push_str(&s.code);
        ranges.push((s.key, start, count_lines(&text)));
        text.push('\n');
    }
    text.push_str("pub fn probe() -> ::std::string::String {\n");
    text.push_str(&format!("    let mut o = pr::Obs::new({});\n", lit(&plan.id_json)));
    for s in &plan.sections {
        if is_dropped(s.key) {
            text.push_str(&format!("    o.put({}, J::Null);\n", lit(s.key)));
        } else {
            text.push_str(&format!("    o.section({}, sec_{});\n", lit(s.key), s.key));
        }
    }
    if !dropped.is_empty() {
        text.push_str("    o.put(\"probe_compile_errors\", J::obj()\n");
        for (k, msg) in dropped {
            text.push_str(&format!("        .put({}, J::str({}))\n", lit(k), lit(msg)));
        }
        text.push_str("        .done());\n");
    }
    text.push_str("    o.finish()\n}\n");
    Rendered { text, ranges }
}

/// `src/support.rs` of the shim scratch crate: helpers that need crates the shim does not depend on.
pub const SUPPORT_RS: &str = r#"// generated by `driver batch`: helpers shared by all probes
#![allow(dead_code, unused)]
use ::wgpu::probe as pr;
use ::wgpu::probe::J;

/// name of this crate (first segment of `module_path!()`)
pub fn pr_crate_name() -> ::std::string::String {
    module_path!().split("::").next().unwrap_or("").to_owned()
}

/// `type_name` with `<crate>::m<i>::` prefixes removed, so that it does not depend on the scratch crate
pub fn clean_type_name(name: &str, krate: &str) -> ::std::string::String {
    let prefix = ::std::format!("{}::m", krate);
    let mut out = ::std::string::String::new();
    let mut rest = name;
    while let Some(pos) = rest.find(&prefix) {
        // only at an identifier boundary
        let boundary = pos == 0 || !rest[..pos].chars().last().map_or(false, |c| c.is_alphanumeric() || c == '_' || c == ':');
        let after = &rest[pos + prefix.len()..];
        let digits = after.chars().take_while(|c| c.is_ascii_digit()).count();
        if boundary && digits > 0 && after[digits..].starts_with("::") {
            out.push_str(&rest[..pos]);
            rest = &after[digits + 2..];
        } else {
            out.push_str(&rest[..pos + prefix.len()]);
            rest = after;
        }
    }
    out.push_str(rest);
    out
}

pub fn field_json(name: &str, offset: usize, size: usize, align: usize, type_name: &str, krate: &str) -> J {
    J::obj()
        .put("name", J::str(name))
        .put("offset", J::usize(offset))
        .put("size", J::usize(size))
        .put("align", J::usize(align))
        .put("type_name", J::Str(clean_type_name(type_name, krate)))
        .done()
}

pub fn layout_summary(layout: &::wgpu::VertexBufferLayout<'_>, attributes: &[::wgpu::VertexAttribute]) -> J {
    J::obj()
        .put("array_stride", J::uint(layout.array_stride))
        .put("step_mode", J::debug(&layout.step_mode))
        .put("attributes_same", J::Bool(layout.attributes == attributes))
        .done()
}

/// N distinct colour targets (index 1, 4, 7, .. are `None`)
pub fn color_targets<const N: usize>() -> [::core::option::Option<::wgpu::ColorTargetState>; N] {
    const FORMATS: [::wgpu::TextureFormat; 5] = [
        ::wgpu::TextureFormat::Rgba8Unorm,
        ::wgpu::TextureFormat::Bgra8UnormSrgb,
        ::wgpu::TextureFormat::Rgba16Float,
        ::wgpu::TextureFormat::R32Float,
        ::wgpu::TextureFormat::Rg8Unorm,
    ];
    ::core::array::from_fn(|k| {
        if k % 3 == 1 {
            ::core::option::Option::None
        } else {
            ::core::option::Option::Some(::wgpu::ColorTargetState {
                format: FORMATS[k % FORMATS.len()],
                blend: ::core::option::Option::None,
                write_mask: ::wgpu::ColorWrites::from_bits_truncate((k as u32 + 1) % 16),
            })
        }
    })
}

/// One encase observation: the bytes `StorageBuffer` / `UniformBuffer` produce for `value`.
pub fn encase_obs<T>(value: &T, rts_len: ::core::option::Option<usize>, c: &pr::Counter) -> J
where
    T: ::encase::ShaderType + ::encase::internal::WriteInto,
{
    let mut o = J::obj()
        .put("rts_len", rts_len.map_or(J::Null, J::usize))
        .put("value_components", c.components_json());
    match pr::catch(|| {
        let mut b = ::encase::StorageBuffer::new(::std::vec::Vec::<u8>::new());
        b.write(value).map(|_| b.into_inner()).map_err(|e| ::std::format!("{:?}", e))
    }) {
        Ok(Ok(bytes)) => o.set("storage_bytes", J::Str(pr::hex(&bytes))),
        Ok(Err(e)) => {
            o.set("storage_bytes", J::Null);
            o.set("storage_error", J::Str(e));
        }
        Err(p) => {
            o.set("storage_bytes", J::Null);
            o.set("storage_panic", J::Str(p));
        }
    }
    match pr::catch(|| {
        let mut b = ::encase::UniformBuffer::new(::std::vec::Vec::<u8>::new());
        b.write(value).map(|_| b.into_inner()).map_err(|e| ::std::format!("{:?}", e))
    }) {
        Ok(Ok(bytes)) => o.set("uniform_bytes", J::Str(pr::hex(&bytes))),
        Ok(Err(e)) => {
            o.set("uniform_bytes", J::Null);
            o.set("uniform_error", J::Str(e));
        }
        Err(p) => {
            o.set("uniform_bytes", J::Null);
            o.set("uniform_panic", J::Str(p));
        }
    }
    match pr::catch(|| (T::min_size().get(), value.size().get())) {
        Ok((min, size)) => {
            o.set("min_size", J::uint(min));
            o.set("size", J::uint(size));
        }
        Err(p) => {
            o.set("min_size", J::Null);
            o.set("size_panic", J::Str(p));
        }
    }
    o.done()
}
"#;
