fn main(){}
