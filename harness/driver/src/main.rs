//! `driver gen <cases.jsonl> <results.jsonl>` - see /verif/harness/DRIVER_SPEC.md.
//! `driver batch <cases.jsonl> <outdir> [--real] [--shim]` - see /verif/harness/BATCH_SPEC.md.

pub mod batch;
pub mod coqfmt;
pub mod extract;
pub mod irdump;
pub mod probe;
pub mod tokpat;
pub mod toks;
pub mod tables;
pub mod wgpuval;
pub mod overrides;

use serde_json::{json, Value};
use std::io::{BufRead, BufWriter, Write};
use std::panic::{catch_unwind, AssertUnwindSafe};
use std::sync::atomic::{AtomicUsize, Ordering};
use std::sync::Mutex;
use wgsl_to_wgpu::{CreateModuleError, MatrixVectorTypes, ValidationOptions, WriteOptions};

fn panic_message(p: Box<dyn std::any::Any + Send>) -> String {
    if let Some(s) = p.downcast_ref::<&str>() {
        s.to_string()
    } else if let Some(s) = p.downcast_ref::<String>() {
        s.clone()
    } else {
        "<non-string panic payload>".to_string()
    }
}

fn opt_bool(opts: &Value, key: &str) -> bool {
    opts.get(key).and_then(Value::as_bool).unwrap_or(false)
}

fn write_options(opts: &Value) -> Result<WriteOptions, String> {
    let mv = match opts.get("mv").and_then(Value::as_str).unwrap_or("Rust") {
        "Rust" => MatrixVectorTypes::Rust,
        "Glam" => MatrixVectorTypes::Glam,
        "Nalgebra" => MatrixVectorTypes::Nalgebra,
        other => return Err(format!("unknown mv `{}`", other)),
    };
    Ok(WriteOptions {
        derive_bytemuck_vertex: opt_bool(opts, "bm_vertex"),
        derive_bytemuck_host_shareable: opt_bool(opts, "bm_host"),
        derive_encase_host_shareable: opt_bool(opts, "encase"),
        derive_serde: opt_bool(opts, "serde"),
        matrix_vector_types: mv,
        rustfmt: opt_bool(opts, "rustfmt"),
        validate: if opt_bool(opts, "validate") {
            Some(match opts.get("caps").and_then(Value::as_str) {
                None => ValidationOptions::default(),
                Some(c) => ValidationOptions { capabilities: capabilities(c)? },
            })
        } else {
            None
        },
    })
}

/// capability sets by name: the validator's verdict depends on them (C17 / C18: a call must not remember another call's)
fn capabilities(name: &str) -> Result<naga::valid::Capabilities, String> {
    use naga::valid::Capabilities as C;
    Ok(match name {
        "all" => C::all(),
        "empty" => C::empty(),
        "no_push_constant" => C::all().difference(C::PUSH_CONSTANT),
        "no_float64" => C::all().difference(C::FLOAT64),
        other => return Err(format!("unknown caps `{}`", other)),
    })
}

/// Per entry point: indices of the used globals, and the sampling pairs.
fn uses_and_sampling(module: &naga::Module, info: &naga::valid::ModuleInfo) -> (Value, Value) {
    let mut uses = Vec::new();
    let mut sampling = Vec::new();
    for i in 0..module.entry_points.len() {
        let fi = info.get_entry_point(i);
        let u: Vec<usize> = module
            .global_variables
            .iter()
            .filter(|(h, _)| !fi[*h].is_empty())
            .map(|(h, _)| h.index())
            .collect();
        let mut sp: Vec<(usize, usize)> = fi
            .sampling_set
            .iter()
            .map(|k| (k.image.index(), k.sampler.index()))
            .collect();
        sp.sort();
        uses.push(json!(u));
        sampling.push(json!(sp.iter().map(|(a, b)| vec![*a, *b]).collect::<Vec<_>>()));
    }
    (Value::Array(uses), Value::Array(sampling))
}

fn run_case(case: &Value) -> Value {
    let id = case.get("id").cloned().unwrap_or(Value::Null);
    let mut res = json!({
        "id": id, "parse_ok": false, "parse_err": null, "valid": null, "valid_err": null,
        "ir": null, "result": null, "err": null, "panic_msg": null, "text": null, "out": null,
        "extract_err": null, "uses": null, "sampling": null, "features": [], "toks": null, "toks_err": null,
    });
    let wgsl = match case.get("wgsl").and_then(Value::as_str) {
        Some(w) => w,
        None => {
            res["parse_err"] = json!("driver: case has no string field `wgsl`");
            return res;
        }
    };
    let include = case.get("include").and_then(Value::as_str);
    let want_text = case.get("want_text").and_then(Value::as_bool).unwrap_or(false);
    let want_toks = case.get("want_toks").and_then(Value::as_bool).unwrap_or(false);
    let options = match write_options(case.get("opts").unwrap_or(&Value::Null)) {
        Ok(o) => o,
        Err(e) => {
            res["parse_err"] = json!(format!("driver: {}", e));
            return res;
        }
    };

    // --- naga, called directly -----------------------------------------
    match catch_unwind(AssertUnwindSafe(|| naga::front::wgsl::parse_str(wgsl))) {
        Ok(Ok(module)) => {
            res["parse_ok"] = json!(true);
            match catch_unwind(AssertUnwindSafe(|| irdump::dump_module(&module))) {
                Ok(ir) => res["ir"] = json!(ir),
                Err(p) => res["ir"] = json!(format!("(* driver: dump panicked: {} *)", panic_message(p))),
            }
            res["features"] = json!(irdump::features(&module));
            let validated = catch_unwind(AssertUnwindSafe(|| {
                naga::valid::Validator::new(
                    naga::valid::ValidationFlags::all(),
                    case.get("opts")
                        .and_then(|o| o.get("caps"))
                        .and_then(Value::as_str)
                        .and_then(|c| capabilities(c).ok())
                        .unwrap_or(naga::valid::Capabilities::all()),
                )
                .validate(&module)
            }));
            match validated {
                Ok(Ok(info)) => {
                    res["valid"] = json!(true);
                    let (u, sp) = uses_and_sampling(&module, &info);
                    res["uses"] = u;
                    res["sampling"] = sp;
                }
                Ok(Err(e)) => {
                    res["valid"] = json!(false);
                    res["valid_err"] = json!(e.emit_to_string(wgsl));
                }
                Err(p) => {
                    res["valid"] = json!(false);
                    res["valid_err"] = json!(format!("validator panicked: {}", panic_message(p)));
                }
            }
        }
        Ok(Err(e)) => {
            res["parse_err"] = json!(e.emit_to_string(wgsl));
        }
        Err(p) => {
            res["parse_err"] = json!(format!("parser panicked: {}", panic_message(p)));
        }
    }

    // --- the generator --------------------------------------------------
    #[cfg(wgsl_to_wgpu_verif)]
    wgsl_to_wgpu::verif_hooks::reset_counters();
    let t_gen = std::time::Instant::now();
    // `path_env`: PATH for the duration of THIS call only (a transient fault: the formatter cannot be found during one call
    // of a longer history). Process-wide, so only meaningful in runs with DRIVER_THREADS=1.
    let saved_path = case.get("path_env").and_then(Value::as_str).map(|p| {
        let old = std::env::var_os("PATH");
        std::env::set_var("PATH", p);
        old
    });
    let generated = catch_unwind(AssertUnwindSafe(|| match include {
        None => wgsl_to_wgpu::create_shader_module_embedded(wgsl, options),
        Some(path) => wgsl_to_wgpu::create_shader_module(wgsl, path, options),
    }));
    if let Some(old) = saved_path {
        match old {
            Some(v) => std::env::set_var("PATH", v),
            None => std::env::remove_var("PATH"),
        }
    }
    res["gen_us"] = json!(t_gen.elapsed().as_micros() as u64);
    #[cfg(wgsl_to_wgpu_verif)]
    {
        let (walks, visits) = wgsl_to_wgpu::verif_hooks::counters();
        res["counters"] = json!([walks, visits]);
    }
    match generated {
        Ok(Ok(text)) => {
            res["result"] = json!("ok");
            if case.get("want_rest").and_then(Value::as_bool).unwrap_or(false) {
                // every top-level item except the Rust structs generated for WGSL structs and their layout assertions:
                // the part of the module no struct option documents (C09)
                let names: Vec<String> = naga::front::wgsl::parse_str(wgsl)
                    .map(|m| {
                        m.types
                            .iter()
                            .filter(|(_, t)| matches!(t.inner, naga::TypeInner::Struct { .. }))
                            .filter_map(|(_, t)| t.name.clone())
                            .collect()
                    })
                    .unwrap_or_default();
                if let Ok(file) = syn::parse_file(&text) {
                    let mut rest = String::new();
                    // ... and, of the structs themselves, the part only `matrix_vector_types` documents: field names and types
                    let mut fields = String::new();
                    for item in &file.items {
                        if let syn::Item::Struct(st) = item {
                            if names.contains(&st.ident.to_string()) {
                                fields.push_str(&st.ident.to_string());
                                fields.push_str(" {");
                                for f in st.fields.iter() {
                                    fields.push_str(&format!(
                                        " {}: {},",
                                        f.ident.as_ref().map(|i| i.to_string()).unwrap_or_default(),
                                        quote::ToTokens::to_token_stream(&f.ty)
                                    ));
                                }
                                fields.push_str(" }\n");
                            }
                        }
                    }
                    res["struct_fields"] = json!(fields);
                    for item in &file.items {
                        let skip = match item {
                            syn::Item::Struct(st) => names.contains(&st.ident.to_string()),
                            syn::Item::Const(c) => c.ident == "_",
                            _ => false,
                        };
                        if !skip {
                            rest.push_str(&quote::ToTokens::to_token_stream(item).to_string());
                            rest.push('\n');
                        }
                    }
                    res["rest"] = json!(rest);
                }
            }
            if case.get("want_lit").and_then(Value::as_bool).unwrap_or(false) {
                // the characters between the quotes of the SOURCE literal as printed in the returned text (C16)
                if let Ok(ts) = text.parse::<proc_macro2::TokenStream>() {
                    let toks: Vec<proc_macro2::TokenTree> = ts.into_iter().collect();
                    for w in toks.windows(6) {
                        let is_source = matches!(&w[0], proc_macro2::TokenTree::Ident(i) if i == "SOURCE");
                        if is_source {
                            // include variant: SOURCE : & str = include_str ! ( <one string literal> )
                            if let (proc_macro2::TokenTree::Ident(i), Some(proc_macro2::TokenTree::Group(g))) = (&w[5], toks.get(toks.iter().position(|t| std::ptr::eq(t, &w[5])).unwrap_or(0) + 2)) {
                                if i == "include_str" {
                                    let inner: Vec<proc_macro2::TokenTree> = g.stream().into_iter().collect();
                                    res["source_include_arg"] = match inner.as_slice() {
                                        [proc_macro2::TokenTree::Literal(l)] => match syn::parse_str::<syn::LitStr>(&l.to_string()) {
                                            Ok(ls) => json!({"literal": ls.value()}),
                                            Err(_) => json!({"other": l.to_string()}),
                                        },
                                        _ => json!({"other": g.stream().to_string()}),
                                    };
                                }
                            }
                            if let proc_macro2::TokenTree::Literal(l) = &w[5] {
                                let t = l.to_string();
                                if t.starts_with('"') && t.ends_with('"') && t.len() >= 2 {
                                    let body: Vec<u32> = t[1..t.len() - 1].chars().map(|c| c as u32).collect();
                                    res["source_literal_chars"] = json!(body);
                                }
                            }
                        }
                    }
                }
            }
            if want_toks {
                match catch_unwind(AssertUnwindSafe(|| toks::tokens(&text))) {
                    Ok(Ok(t)) => res["toks"] = json!(t),
                    Ok(Err(e)) => res["toks_err"] = json!(e),
                    Err(p) => res["toks_err"] = json!(format!("tokeniser panicked: {}", panic_message(p))),
                }
            }
            let extracted = catch_unwind(AssertUnwindSafe(|| extract::extract(&text)))
                .unwrap_or_else(|p| Err(format!("extractor panicked: {}", panic_message(p))));
            match extracted {
                Ok(out) => {
                    res["out"] = json!(out);
                    if want_text {
                        res["text"] = json!(text);
                    }
                }
                Err(e) => {
                    res["extract_err"] = json!(e);
                    res["text"] = json!(text);
                }
            }
        }
        Ok(Err(e)) => {
            res["result"] = json!("err");
            let display = e.to_string();
            let (variant, binding) = match &e {
                CreateModuleError::NonConsecutiveBindGroups => ("NonConsecutiveBindGroups", None),
                CreateModuleError::DuplicateBinding { binding } => ("DuplicateBinding", Some(*binding)),
                CreateModuleError::ParseError { .. } => ("ParseError", None),
                CreateModuleError::ValidationError { .. } => ("ValidationError", None),
                #[allow(unreachable_patterns)]
                _ => ("Unknown", None),
            };
            // rendering the error against the same source must not panic (C17)
            let emit = catch_unwind(AssertUnwindSafe(|| e.emit_to_string(wgsl))).ok();
            let emit_path = catch_unwind(AssertUnwindSafe(|| e.emit_to_string_with_path(wgsl, "dir/shader.wgsl"))).ok();
            res["err"] = json!({"variant": variant, "binding": binding, "display": display,
                                "emit": emit, "emit_path": emit_path});
        }
        Err(p) => {
            res["result"] = json!("panic");
            res["panic_msg"] = json!(panic_message(p));
        }
    }
    res
}

fn gen(cases_path: &str, results_path: &str) -> Result<(), String> {
    let input = std::fs::File::open(cases_path).map_err(|e| format!("{}: {}", cases_path, e))?;
    let mut lines: Vec<String> = Vec::new();
    for l in std::io::BufReader::new(input).lines() {
        let l = l.map_err(|e| format!("{}: {}", cases_path, e))?;
        if !l.trim().is_empty() {
            lines.push(l);
        }
    }
    let total = lines.len();
    let results: Mutex<Vec<Option<String>>> = Mutex::new(vec![None; total]);
    let next = AtomicUsize::new(0);
    const CHUNK: usize = 4;
    // DRIVER_THREADS: more (or fewer) workers than cores, DRIVER_CHUNK: cases handed to a worker at a time
    let env_usize = |k: &str| std::env::var(k).ok().and_then(|v| v.parse::<usize>().ok()).filter(|v| *v > 0);
    let chunk = env_usize("DRIVER_CHUNK").unwrap_or(CHUNK);
    let threads = env_usize("DRIVER_THREADS")
        .unwrap_or_else(|| std::thread::available_parallelism().map(|n| n.get()).unwrap_or(4))
        .min(total.div_ceil(chunk).max(1));

    std::thread::scope(|scope| {
        for t in 0..threads {
            let lines = &lines;
            let results = &results;
            let next = &next;
            std::thread::Builder::new()
                .name(format!("worker{}", t))
                // the generator recurses over call graphs and types
                .stack_size(512 << 20)
                .spawn_scoped(scope, move || loop {
                    let start = next.fetch_add(chunk, Ordering::SeqCst);
                    if start >= total {
                        break;
                    }
                    for i in start..(start + chunk).min(total) {
                        let out = match serde_json::from_str::<Value>(&lines[i]) {
                            Ok(case) => catch_unwind(AssertUnwindSafe(|| run_case(&case)))
                                .unwrap_or_else(|p| {
                                    json!({"id": case.get("id").cloned().unwrap_or(Value::Null),
                                           "driver_panic": panic_message(p)})
                                }),
                            Err(e) => json!({"id": null, "driver_error": format!("bad case line {}: {}", i + 1, e)}),
                        };
                        let line = serde_json::to_string(&out).expect("serialize");
                        results.lock().unwrap()[i] = Some(line);
                    }
                })
                .expect("spawn worker");
        }
    });

    // is the panic hook installed in main() still the process-wide hook after all these calls?
    let before = HOOK_CALLS.load(Ordering::SeqCst);
    let _ = catch_unwind(|| panic!("driver: panic hook probe"));
    let intact = HOOK_CALLS.load(Ordering::SeqCst) == before + 1;
    let _ = std::fs::write(format!("{}.meta", results_path), json!({"panic_hook_intact": intact}).to_string());

    let output = std::fs::File::create(results_path).map_err(|e| format!("{}: {}", results_path, e))?;
    let mut w = BufWriter::new(output);
    for r in results.into_inner().unwrap() {
        let line = r.ok_or_else(|| "internal: missing result".to_string())?;
        w.write_all(line.as_bytes()).map_err(|e| e.to_string())?;
        w.write_all(b"\n").map_err(|e| e.to_string())?;
    }
    w.flush().map_err(|e| e.to_string())
}

/// calls of the process-wide panic hook the driver installs (C18: a call must not replace the application's hook)
static HOOK_CALLS: AtomicUsize = AtomicUsize::new(0);

fn main() {
    // Panics of the generator are expected outcomes; print nothing, but count them.
    std::panic::set_hook(Box::new(|_| {
        HOOK_CALLS.fetch_add(1, Ordering::SeqCst);
    }));
    let args: Vec<String> = std::env::args().collect();
    let code = match args.get(1).map(String::as_str) {
        Some("gen") if args.len() == 4 => match gen(&args[2], &args[3]) {
            Ok(()) => 0,
            Err(e) => {
                eprintln!("driver: {}", e);
                1
            }
        },
        // behavioural level: compile / run the generated modules (see BATCH_SPEC.md)
        Some("batch") => match batch::batch(&args[2..]) {
            Ok(()) => 0,
            Err(e) => {
                eprintln!("driver: {}", e);
                1
            }
        },
        // wgpu-core's shader interface validation as an oracle for the emitted layouts (see wgpuval.rs)
        Some("overrides") if args.len() == 4 => match overrides::overrides(&args[2], &args[3]) {
            Ok(()) => 0,
            Err(e) => {
                eprintln!("driver: {}", e);
                1
            }
        },
        Some("tables") if args.len() == 3 => match tables::tables(&args[2]) {
            Ok(()) => 0,
            Err(e) => {
                eprintln!("driver: {}", e);
                1
            }
        },
        Some("wgpu") if args.len() == 4 => match wgpuval::wgpu(&args[2], &args[3]) {
            Ok(()) => 0,
            Err(e) => {
                eprintln!("driver: {}", e);
                1
            }
        },
        // debugging helpers: print the `out` term of a generated file / the `module` term of a shader
        Some("extract") if args.len() == 3 => match std::fs::read_to_string(&args[2]) {
            Ok(text) => match extract::extract(&text) {
                Ok(out) => {
                    println!("{}", out);
                    0
                }
                Err(e) => {
                    eprintln!("extract_err: {}", e);
                    1
                }
            },
            Err(e) => {
                eprintln!("driver: {}: {}", args[2], e);
                1
            }
        },
        Some("ir") if args.len() == 3 => match std::fs::read_to_string(&args[2]) {
            Ok(wgsl) => match naga::front::wgsl::parse_str(&wgsl) {
                Ok(module) => {
                    println!("{}", irdump::dump_module(&module));
                    0
                }
                Err(e) => {
                    eprintln!("parse_err: {}", e.emit_to_string(&wgsl));
                    1
                }
            },
            Err(e) => {
                eprintln!("driver: {}: {}", args[2], e);
                1
            }
        },
        _ => {
            eprintln!("usage: driver gen <cases.jsonl> <results.jsonl>\n       driver batch <cases.jsonl> <outdir> [--real] [--shim] [--rounds N]\n       driver wgpu <cases.jsonl> <results.jsonl>\n       driver extract <generated.rs>\n       driver ir <shader.wgsl>");
            2
        }
    };
    std::process::exit(code);
}
