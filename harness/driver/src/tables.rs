//! `driver tables <out.v>`: the leaf tables of the generator, evaluated on their WHOLE (finite) domain through the
//! verification hooks, printed as Coq definitions. coq/Check/Tables.v compares them with the model's tables and checks
//! that the listed inputs are the complete domain, so for these functions the correspondence is an equivalence.
#![cfg_attr(not(wgsl_to_wgpu_verif), allow(dead_code, unused_imports))]
use crate::coqfmt::{app, b, list, pair, s, triple};
use crate::irdump;
use std::panic::{catch_unwind, AssertUnwindSafe};

const KINDS: [naga::ScalarKind; 6] = [
    naga::ScalarKind::Sint,
    naga::ScalarKind::Uint,
    naga::ScalarKind::Float,
    naga::ScalarKind::Bool,
    naga::ScalarKind::AbstractInt,
    naga::ScalarKind::AbstractFloat,
];
const WIDTHS: [u8; 4] = [1, 2, 4, 8];
const SIZES: [naga::VectorSize; 3] = [naga::VectorSize::Bi, naga::VectorSize::Tri, naga::VectorSize::Quad];

fn scalars() -> Vec<naga::Scalar> {
    let mut v = Vec::new();
    for k in KINDS {
        for w in WIDTHS {
            v.push(naga::Scalar { kind: k, width: w });
        }
    }
    v
}

fn res(r: std::thread::Result<Result<String, String>>) -> String {
    match r {
        Ok(Ok(t)) => app("Ok", &[t]),
        Ok(Err(e)) => app("Err", &[s(&e)]), // not a value of the model's type: can never agree
        Err(_) => "(Panic \"\"%string)".to_string(),
    }
}

#[cfg(wgsl_to_wgpu_verif)]
pub fn tables(out: &str) -> Result<(), String> {
    use wgsl_to_wgpu::verif_hooks as h;
    use wgsl_to_wgpu::MatrixVectorTypes as MV;
    let mut f = String::new();
    // rust_scalar_type
    let rows: Vec<String> = scalars()
        .iter()
        .map(|sc| {
            let r = catch_unwind(AssertUnwindSafe(|| {
                let t = h::rust_scalar_type(sc);
                crate::extract::types::prim(&t).map(|p| p.to_string()).ok_or(t)
            }));
            pair(&irdump::scalar(sc), &res(r))
        })
        .collect();
    f.push_str(&format!("Definition tbl_scalar : list (scalar * result rprim) := {}.\n", list(rows)));
    // rust_type on leaf types x representation
    let mut inners: Vec<naga::TypeInner> = Vec::new();
    for sc in scalars() {
        inners.push(naga::TypeInner::Scalar(sc));
    }
    for n in SIZES {
        for sc in scalars() {
            inners.push(naga::TypeInner::Vector { size: n, scalar: sc });
        }
    }
    for c in SIZES {
        for r in SIZES {
            for sc in scalars() {
                inners.push(naga::TypeInner::Matrix { columns: c, rows: r, scalar: sc });
            }
        }
    }
    for sc in scalars() {
        inners.push(naga::TypeInner::Atomic(sc));
    }
    let module = naga::Module::default();
    let mut rows = Vec::new();
    for (mv, name) in [(MV::Rust, "MVRust"), (MV::Glam, "MVGlam"), (MV::Nalgebra, "MVNalgebra")] {
        for inner in &inners {
            let ty = naga::Type { name: None, inner: inner.clone() };
            let r = catch_unwind(AssertUnwindSafe(|| {
                let t = h::rust_type(&module, &ty, mv);
                let parsed: syn::Type = syn::parse_str(&t).map_err(|e| format!("{}: {}", t, e))?;
                crate::extract::types::rust_ty(&parsed)
            }));
            rows.push(triple(name, &irdump::type_inner(inner), &res(r)));
        }
    }
    f.push_str(&format!("Definition tbl_rust_type : list (mv_types * type_inner * result rust_ty) := {}.\n", list(rows)));
    // vertex_format on scalars and vectors
    let mut rows = Vec::new();
    for inner in inners.iter().filter(|i| matches!(i, naga::TypeInner::Scalar(_) | naga::TypeInner::Vector { .. })) {
        let ty = naga::Type { name: None, inner: inner.clone() };
        let r = catch_unwind(AssertUnwindSafe(|| Ok::<String, String>(s(&format!("{:?}", h::vertex_format(&ty))))));
        rows.push(pair(&irdump::type_inner(inner), &res(r)));
    }
    f.push_str(&format!("Definition tbl_vertex_format : list (type_inner * result string) := {}.\n", list(rows)));
    // buffer_binding_type on every address space (x every access set)
    let accesses: Vec<naga::StorageAccess> = (0u32..8).map(naga::StorageAccess::from_bits_truncate).collect();
    let mut spaces = vec![
        naga::AddressSpace::Function,
        naga::AddressSpace::Private,
        naga::AddressSpace::WorkGroup,
        naga::AddressSpace::Uniform,
        naga::AddressSpace::Handle,
        naga::AddressSpace::PushConstant,
    ];
    for a in &accesses {
        spaces.push(naga::AddressSpace::Storage { access: *a });
    }
    let rows: Vec<String> = spaces
        .iter()
        .map(|sp| {
            let t = h::buffer_binding_type(*sp);
            let compact: String = t.chars().filter(|c| !c.is_whitespace()).collect();
            let v = match compact.as_str() {
                "wgpu::BufferBindingType::Uniform" => "BufUniform".to_string(),
                "wgpu::BufferBindingType::Storage{read_only:true}" => "(BufStorage true)".to_string(),
                "wgpu::BufferBindingType::Storage{read_only:false}" => "(BufStorage false)".to_string(),
                other => format!("(* unexpected: {} *) BufUniform", other.replace("*)", "* )")),
            };
            pair(&irdump::space(sp), &v)
        })
        .collect();
    f.push_str(&format!("Definition tbl_buffer_binding : list (address_space * buf_ty) := {}.\n", list(rows)));
    // storage_access on every access set
    let rows: Vec<String> = accesses
        .iter()
        .map(|a| {
            let r = catch_unwind(AssertUnwindSafe(|| {
                let t = h::storage_access(*a);
                let compact: String = t.chars().filter(|c| !c.is_whitespace()).collect();
                match compact.as_str() {
                    "wgpu::StorageTextureAccess::ReadOnly" => Ok("TAReadOnly".to_string()),
                    "wgpu::StorageTextureAccess::WriteOnly" => Ok("TAWriteOnly".to_string()),
                    "wgpu::StorageTextureAccess::ReadWrite" => Ok("TAReadWrite".to_string()),
                    "wgpu::StorageTextureAccess::Atomic" => Ok("TAAtomic".to_string()),
                    _ => Err(t),
                }
            }));
            pair(&irdump::access(*a), &res(r))
        })
        .collect();
    f.push_str(&format!("Definition tbl_storage_access : list (access * result tex_access) := {}.\n", list(rows)));
    // quote_shader_stages on every stage set: the expression must evaluate to the set it was given
    let mut rows = Vec::new();
    for bits in 0u32..8 {
        let st = wgpu_types::ShaderStages::from_bits_truncate(bits);
        let t = h::quote_shader_stages(st);
        let toks: Vec<proc_macro2::TokenTree> = t.parse::<proc_macro2::TokenStream>().map_err(|e| e.to_string())?.into_iter().collect();
        let v = crate::extract::bindgroups::stages(&toks).unwrap_or_else(|e| format!("(* {} *) (mkStages false false false)", e.replace("*)", "* )")));
        rows.push(pair(&app("mkStages", &[b(bits & 1 != 0), b(bits & 2 != 0), b(bits & 4 != 0)]), &v));
    }
    f.push_str(&format!("Definition tbl_stages : list (stages * stages) := {}.\n", list(rows)));
    std::fs::write(out, f).map_err(|e| e.to_string())
}

#[cfg(not(wgsl_to_wgpu_verif))]
pub fn tables(_out: &str) -> Result<(), String> {
    Err("the verification hooks are not compiled in".to_string())
}
