//! Serializer `naga::Module` -> Coq term of type `module` (datatypes in
//! /verif/coq/Model/Naga.v), plus the cheap `features` tags.

use crate::coqfmt::{app, b, list, n, nat, opt, opt_s, pair, s, triple, z};
use case::CaseExt;
use std::panic::{catch_unwind, AssertUnwindSafe};

fn scalar_kind(k: naga::ScalarKind) -> &'static str {
    match k {
        naga::ScalarKind::Sint => "SkSint",
        naga::ScalarKind::Uint => "SkUint",
        naga::ScalarKind::Float => "SkFloat",
        naga::ScalarKind::Bool => "SkBool",
        naga::ScalarKind::AbstractInt => "SkAbstractInt",
        naga::ScalarKind::AbstractFloat => "SkAbstractFloat",
    }
}

pub fn scalar(sc: &naga::Scalar) -> String {
    app("mkScalar", &[scalar_kind(sc.kind).to_string(), n(sc.width)])
}

pub fn vsize(v: naga::VectorSize) -> String {
    match v {
        naga::VectorSize::Bi => "Bi",
        naga::VectorSize::Tri => "Tri",
        naga::VectorSize::Quad => "Quad",
    }
    .to_string()
}

fn array_size(a: &naga::ArraySize) -> String {
    match a {
        naga::ArraySize::Constant(c) => app("ASConstant", &[n(c.get())]),
        naga::ArraySize::Dynamic => "ASDynamic".to_string(),
        naga::ArraySize::Pending(_) => "ASPending".to_string(),
    }
}

pub fn access(a: naga::StorageAccess) -> String {
    app(
        "mkAccess",
        &[
            b(a.contains(naga::StorageAccess::LOAD)),
            b(a.contains(naga::StorageAccess::STORE)),
            b(a.contains(naga::StorageAccess::ATOMIC)),
        ],
    )
}

pub fn space(sp: &naga::AddressSpace) -> String {
    match sp {
        naga::AddressSpace::Function => "SpFunction".to_string(),
        naga::AddressSpace::Private => "SpPrivate".to_string(),
        naga::AddressSpace::WorkGroup => "SpWorkGroup".to_string(),
        naga::AddressSpace::Uniform => "SpUniform".to_string(),
        naga::AddressSpace::Storage { access: a } => app("SpStorage", &[access(*a)]),
        naga::AddressSpace::Handle => "SpHandle".to_string(),
        naga::AddressSpace::PushConstant => "SpPushConstant".to_string(),
    }
}

fn binding(bd: &naga::Binding) -> String {
    match bd {
        naga::Binding::BuiltIn(bi) => app("BBuiltIn", &[s(&format!("{:?}", bi))]),
        naga::Binding::Location {
            location,
            second_blend_source,
            ..
        } => app("BLocation", &[n(*location), b(*second_blend_source)]),
    }
}

fn opt_binding(bd: &Option<naga::Binding>) -> String {
    opt(bd.as_ref().map(binding))
}

fn image_dim(d: naga::ImageDimension) -> &'static str {
    match d {
        naga::ImageDimension::D1 => "D1",
        naga::ImageDimension::D2 => "D2",
        naga::ImageDimension::D3 => "D3",
        naga::ImageDimension::Cube => "Cube",
    }
}

fn image_class(c: &naga::ImageClass) -> String {
    match c {
        naga::ImageClass::Sampled { kind, multi } => {
            app("ICSampled", &[scalar_kind(*kind).to_string(), b(*multi)])
        }
        naga::ImageClass::Depth { multi } => app("ICDepth", &[b(*multi)]),
        naga::ImageClass::Storage { format, access: a } => {
            app("ICStorage", &[format!("{:?}", format), access(*a)])
        }
    }
}

pub fn type_inner(inner: &naga::TypeInner) -> String {
    use naga::TypeInner as T;
    match inner {
        T::Scalar(sc) => app("TScalar", &[scalar(sc)]),
        T::Vector { size, scalar: sc } => app("TVector", &[vsize(*size), scalar(sc)]),
        T::Matrix {
            columns,
            rows,
            scalar: sc,
        } => app("TMatrix", &[vsize(*columns), vsize(*rows), scalar(sc)]),
        T::Atomic(sc) => app("TAtomic", &[scalar(sc)]),
        T::Pointer { base, space: sp } => app("TPointer", &[nat(base.index()), space(sp)]),
        T::ValuePointer { .. } => "TValuePointer".to_string(),
        T::Array { base, size, stride } => {
            app("TArray", &[nat(base.index()), array_size(size), n(*stride)])
        }
        T::Struct { members, span } => {
            let ms = members.iter().map(|m| {
                app(
                    "mkMember",
                    &[
                        opt_s(m.name.as_deref()),
                        nat(m.ty.index()),
                        opt_binding(&m.binding),
                        n(m.offset),
                    ],
                )
            });
            app("TStruct", &[list(ms), n(*span)])
        }
        T::Image {
            dim,
            arrayed,
            class,
        } => app(
            "TImage",
            &[image_dim(*dim).to_string(), b(*arrayed), image_class(class)],
        ),
        T::Sampler { comparison } => app("TSampler", &[b(*comparison)]),
        T::AccelerationStructure => "TAccelerationStructure".to_string(),
        T::RayQuery => "TRayQuery".to_string(),
        T::BindingArray { base, size } => {
            app("TBindingArray", &[nat(base.index()), array_size(size)])
        }
    }
}

fn literal(l: &naga::Literal) -> String {
    match l {
        naga::Literal::F64(v) => app("LF64", &[n(v.to_bits())]),
        naga::Literal::F32(v) => app("LF32", &[n(v.to_bits())]),
        naga::Literal::U32(v) => app("LU32", &[n(*v)]),
        naga::Literal::I32(v) => app("LI32", &[z(*v)]),
        naga::Literal::U64(v) => app("LU64", &[n(*v)]),
        naga::Literal::I64(v) => app("LI64", &[z(*v)]),
        naga::Literal::Bool(v) => app("LBool", &[b(*v)]),
        naga::Literal::AbstractInt(v) => app("LAbstractInt", &[z(*v)]),
        naga::Literal::AbstractFloat(v) => app("LAbstractFloat", &[n(v.to_bits())]),
    }
}

fn block(blk: &naga::Block) -> String {
    list(blk.iter().map(stmt))
}

fn stmt(st: &naga::Statement) -> String {
    use naga::Statement as S;
    match st {
        S::Block(bl) => app("SBlock", &[block(bl)]),
        S::If { accept, reject, .. } => app("SIf", &[block(accept), block(reject)]),
        S::Switch { cases, .. } => app("SSwitch", &[list(cases.iter().map(|c| block(&c.body)))]),
        S::Loop {
            body, continuing, ..
        } => app("SLoop", &[block(body), block(continuing)]),
        S::Call { function, .. } => app("SCall", &[nat(function.index())]),
        _ => "SOther".to_string(),
    }
}

fn func(f: &naga::Function) -> String {
    let args = f.arguments.iter().map(|a| {
        app(
            "mkArg",
            &[
                opt_s(a.name.as_deref()),
                nat(a.ty.index()),
                opt_binding(&a.binding),
            ],
        )
    });
    let result = opt(f
        .result
        .as_ref()
        .map(|r| pair(&nat(r.ty.index()), &opt_binding(&r.binding))));
    let exprs = f.expressions.iter().map(|(_, e)| match e {
        naga::Expression::GlobalVariable(g) => app("EGlobal", &[nat(g.index())]),
        naga::Expression::CallResult(c) => app("ECallResult", &[nat(c.index())]),
        _ => "EOther".to_string(),
    });
    app(
        "mkFunc",
        &[
            opt_s(f.name.as_deref()),
            list(args),
            result,
            list(exprs),
            block(&f.body),
        ],
    )
}

fn stage(st: naga::ShaderStage) -> &'static str {
    match st {
        naga::ShaderStage::Vertex => "Vertex",
        naga::ShaderStage::Fragment => "Fragment",
        naga::ShaderStage::Compute => "Compute",
    }
}

/// Runs naga's `Layouter` over the module; `None` if `update` fails (or panics).
fn layout(m: &naga::Module) -> Option<Vec<(u32, u32)>> {
    let r = catch_unwind(AssertUnwindSafe(|| {
        let mut layouter = naga::proc::Layouter::default();
        layouter.update(m.to_ctx()).ok()?;
        Some(
            m.types
                .iter()
                .map(|(h, _)| {
                    let l = layouter[h];
                    (l.size, l.alignment * 1u32)
                })
                .collect::<Vec<_>>(),
        )
    }));
    r.unwrap_or(None)
}

/// Prints the module as a Coq term of type `module`.
pub fn dump_module(m: &naga::Module) -> String {
    let lay = layout(m);
    let layouter_ok = lay.is_some();

    let types = m.types.iter().enumerate().map(|(i, (_, t))| {
        let (size, align) = match &lay {
            Some(v) => v[i],
            None => (0, 0),
        };
        app(
            "mkTy",
            &[
                opt_s(t.name.as_deref()),
                type_inner(&t.inner),
                n(size),
                n(align),
                opt(t.name.as_ref().map(|nm| s(&nm.to_snake()))),
            ],
        )
    });

    let constants = m.constants.iter().map(|(_, c)| {
        let init = match &m.global_expressions[c.init] {
            naga::Expression::Literal(l) => app("GLiteral", &[literal(l)]),
            naga::Expression::ZeroValue(_) => "GZero".to_string(),
            _ => "GOther".to_string(),
        };
        app(
            "mkConstant",
            &[opt_s(c.name.as_deref()), nat(c.ty.index()), init],
        )
    });

    let overrides = m.overrides.iter().map(|(_, o)| {
        app(
            "mkOverride",
            &[
                opt_s(o.name.as_deref()),
                opt(o.id.map(n)),
                nat(o.ty.index()),
                b(o.init.is_some()),
            ],
        )
    });

    let globals = m.global_variables.iter().map(|(_, g)| {
        app(
            "mkGlobal",
            &[
                opt_s(g.name.as_deref()),
                space(&g.space),
                opt(g
                    .binding
                    .as_ref()
                    .map(|rb| pair(&n(rb.group), &n(rb.binding)))),
                nat(g.ty.index()),
            ],
        )
    });

    let functions = m.functions.iter().map(|(_, f)| func(f));

    let entries = m.entry_points.iter().map(|e| {
        let [x, y, zz] = e.workgroup_size;
        app(
            "mkEntry",
            &[
                s(&e.name),
                s(&e.name.to_uppercase()),
                stage(e.stage).to_string(),
                triple(&n(x), &n(y), &n(zz)),
                b(e.workgroup_size_overrides.is_some()),
                func(&e.function),
            ],
        )
    });

    app(
        "mkModule",
        &[
            list(types),
            list(constants),
            list(overrides),
            list(globals),
            list(functions),
            list(entries),
            b(layouter_ok),
        ],
    )
}

// ---------------------------------------------------------------------------
// features
// ---------------------------------------------------------------------------

#[derive(Default)]
struct BodyTags {
    call_stmt: bool,
    call_result: bool,
    has_loop: bool,
    has_switch: bool,
    has_if: bool,
}

fn scan_block(blk: &naga::Block, t: &mut BodyTags) {
    use naga::Statement as S;
    for st in blk.iter() {
        match st {
            S::Block(bl) => scan_block(bl, t),
            S::If { accept, reject, .. } => {
                t.has_if = true;
                scan_block(accept, t);
                scan_block(reject, t);
            }
            S::Switch { cases, .. } => {
                t.has_switch = true;
                for c in cases {
                    scan_block(&c.body, t);
                }
            }
            S::Loop {
                body, continuing, ..
            } => {
                t.has_loop = true;
                scan_block(body, t);
                scan_block(continuing, t);
            }
            S::Call { .. } => t.call_stmt = true,
            _ => {}
        }
    }
}

fn scan_fn(f: &naga::Function, t: &mut BodyTags) {
    scan_block(&f.body, t);
    if f
        .expressions
        .iter()
        .any(|(_, e)| matches!(e, naga::Expression::CallResult(_)))
    {
        t.call_result = true;
    }
}

/// Free-form tags describing the module (input distribution statistics).
pub fn features(m: &naga::Module) -> Vec<&'static str> {
    use naga::TypeInner as T;
    let mut tags: Vec<&'static str> = Vec::new();
    let mut add = |c: bool, t: &'static str| {
        if c && !tags.contains(&t) {
            tags.push(t);
        }
    };

    let is_struct = |h: naga::Handle<naga::Type>| matches!(m.types[h].inner, T::Struct { .. });
    for (_, t) in m.types.iter() {
        match &t.inner {
            T::Struct { members, .. } => {
                add(true, "struct");
                for mem in members {
                    let nested = match &m.types[mem.ty].inner {
                        T::Struct { .. } => true,
                        T::Array { base, .. } => is_struct(*base),
                        _ => false,
                    };
                    add(nested, "nested_struct");
                    add(
                        matches!(mem.binding, Some(naga::Binding::BuiltIn(_))),
                        "builtin_member",
                    );
                }
            }
            T::Array { size, .. } => {
                add(true, "array");
                add(matches!(size, naga::ArraySize::Dynamic), "rts_array");
            }
            T::Matrix { .. } => add(true, "matrix"),
            T::Atomic(_) => add(true, "atomic"),
            T::Image { class, .. } => match class {
                naga::ImageClass::Sampled { multi, .. } => {
                    add(true, "texture");
                    add(*multi, "ms_tex");
                }
                naga::ImageClass::Depth { multi } => {
                    add(true, "depth_tex");
                    add(*multi, "ms_tex");
                }
                naga::ImageClass::Storage { .. } => add(true, "storage_tex"),
            },
            T::Sampler { comparison } => {
                add(!*comparison, "sampler");
                add(*comparison, "sampler_cmp");
            }
            T::BindingArray { .. } => add(true, "binding_array"),
            _ => {}
        }
    }

    for (_, g) in m.global_variables.iter() {
        match g.space {
            naga::AddressSpace::Uniform => add(true, "uniform"),
            naga::AddressSpace::Storage { access: a } => {
                if a.contains(naga::StorageAccess::STORE) {
                    add(true, "storage_rw");
                } else {
                    add(true, "storage_ro");
                }
            }
            naga::AddressSpace::PushConstant => add(true, "push_constant"),
            naga::AddressSpace::WorkGroup => add(true, "workgroup_var"),
            naga::AddressSpace::Private => add(true, "private_var"),
            _ => {}
        }
    }

    add(!m.overrides.is_empty(), "override");
    add(!m.constants.is_empty(), "const");
    add(!m.functions.is_empty(), "helper_fn");

    let mut bt = BodyTags::default();
    for (_, f) in m.functions.iter() {
        scan_fn(f, &mut bt);
    }
    for e in &m.entry_points {
        scan_fn(&e.function, &mut bt);
        match e.stage {
            naga::ShaderStage::Vertex => {
                add(true, "vertex_entry");
                let vis = e
                    .function
                    .arguments
                    .iter()
                    .any(|a| a.binding.is_none() && is_struct(a.ty));
                add(vis, "vertex_input_struct");
            }
            naga::ShaderStage::Fragment => add(true, "fragment_entry"),
            naga::ShaderStage::Compute => {
                add(true, "compute_entry");
                add(e.workgroup_size_overrides.is_some(), "workgroup_size_override");
            }
        }
    }
    add(bt.call_stmt, "call_stmt");
    add(bt.call_result, "call_result");
    add(bt.has_loop, "loop");
    add(bt.has_switch, "switch");
    add(bt.has_if, "if");

    tags
}
