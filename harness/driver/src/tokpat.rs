//! A small token-tree pattern matcher used by the extractor.
//!
//! Patterns are written as Rust source text with holes:
//!   `$x`    matches exactly one token tree,
//!   `$[x]`  matches zero or more token trees up to the next pattern token at
//!           this nesting level (or the end of the group if it is last).
//! Everything else has to be equal token by token (identifier text, punctuation
//! character, literal text, group delimiter). Spacing of punctuation is ignored
//! and trailing commas inside groups are removed by `norm` on both sides.
//! A hole name that occurs twice has to capture equal token sequences.

use proc_macro2::{Delimiter, Group, TokenStream, TokenTree as TT};
use std::cell::RefCell;
use std::collections::HashMap;
use std::rc::Rc;
use std::str::FromStr;

/// Normalises a token stream: flattens `None`-delimited groups and drops the
/// trailing comma of every group.
pub fn norm(ts: TokenStream) -> Vec<TT> {
    let mut v: Vec<TT> = Vec::new();
    for t in ts {
        match t {
            TT::Group(g) => {
                if g.delimiter() == Delimiter::None {
                    v.extend(norm(g.stream()));
                } else {
                    let mut inner = norm(g.stream());
                    if let Some(TT::Punct(p)) = inner.last() {
                        if p.as_char() == ',' {
                            inner.pop();
                        }
                    }
                    v.push(TT::Group(Group::new(
                        g.delimiter(),
                        inner.into_iter().collect(),
                    )));
                }
            }
            other => v.push(other),
        }
    }
    // a trailing comma in front of the `>` that closes a generic argument list (`VertexEntry<\n 0,\n>`: rustfmt wraps long
    // signatures this way); `,` directly followed by `>` occurs nowhere else in a Rust program
    let mut w: Vec<TT> = Vec::with_capacity(v.len());
    let mut it = v.into_iter().peekable();
    while let Some(t) = it.next() {
        if let (TT::Punct(p), Some(TT::Punct(q))) = (&t, it.peek()) {
            if p.as_char() == ',' && q.as_char() == '>' {
                continue;
            }
        }
        w.push(t);
    }
    w
}

pub fn group_tokens(g: &Group) -> Vec<TT> {
    g.stream().into_iter().collect()
}

pub fn tt_eq(a: &TT, b: &TT) -> bool {
    match (a, b) {
        (TT::Ident(x), TT::Ident(y)) => x.to_string() == y.to_string(),
        (TT::Punct(x), TT::Punct(y)) => x.as_char() == y.as_char(),
        (TT::Literal(x), TT::Literal(y)) => x.to_string() == y.to_string(),
        (TT::Group(x), TT::Group(y)) => {
            x.delimiter() == y.delimiter() && seq_eq(&group_tokens(x), &group_tokens(y))
        }
        _ => false,
    }
}

pub fn seq_eq(a: &[TT], b: &[TT]) -> bool {
    a.len() == b.len() && a.iter().zip(b).all(|(x, y)| tt_eq(x, y))
}

/// Token text for messages (truncated).
pub fn show(ts: &[TT]) -> String {
    let full: String = ts
        .iter()
        .map(|t| t.to_string())
        .collect::<Vec<_>>()
        .join(" ");
    truncate(&full, 240)
}

pub fn truncate(s: &str, max: usize) -> String {
    if s.len() <= max {
        return s.to_string();
    }
    let mut end = max;
    while !s.is_char_boundary(end) {
        end -= 1;
    }
    format!("{} ...", &s[..end])
}

/// Concatenation of the token texts without spaces (`bytemuck::Pod`).
pub fn concat(ts: &[TT]) -> String {
    ts.iter().map(|t| t.to_string()).collect::<Vec<_>>().concat()
}

pub fn to_stream(ts: &[TT]) -> TokenStream {
    ts.iter().cloned().collect()
}

/// Splits at the commas of this nesting level. Empty input gives no elements.
pub fn split_commas(ts: &[TT]) -> Vec<Vec<TT>> {
    let mut out = Vec::new();
    if ts.is_empty() {
        return out;
    }
    let mut cur = Vec::new();
    for t in ts {
        match t {
            TT::Punct(p) if p.as_char() == ',' => out.push(std::mem::take(&mut cur)),
            other => cur.push(other.clone()),
        }
    }
    out.push(cur);
    out
}

#[derive(Debug)]
enum P {
    Tok(TT),
    Group(Delimiter, Vec<P>),
    One(String),
    Many(String),
}

fn compile(ts: TokenStream) -> Vec<P> {
    let toks = norm(ts);
    let mut out = Vec::new();
    let mut i = 0;
    while i < toks.len() {
        match &toks[i] {
            TT::Punct(p) if p.as_char() == '$' => {
                match toks.get(i + 1) {
                    Some(TT::Ident(id)) => out.push(P::One(id.to_string())),
                    Some(TT::Group(g)) if g.delimiter() == Delimiter::Bracket => {
                        let inner = group_tokens(g);
                        match inner.as_slice() {
                            [TT::Ident(id)] => out.push(P::Many(id.to_string())),
                            _ => panic!("bad pattern hole"),
                        }
                    }
                    _ => panic!("bad pattern: `$` not followed by a hole"),
                }
                i += 2;
            }
            TT::Group(g) => {
                out.push(P::Group(g.delimiter(), compile(g.stream())));
                i += 1;
            }
            other => {
                out.push(P::Tok(other.clone()));
                i += 1;
            }
        }
    }
    out
}

thread_local! {
    static CACHE: RefCell<HashMap<&'static str, Rc<Vec<P>>>> = RefCell::new(HashMap::new());
}

fn compiled(pattern: &'static str) -> Rc<Vec<P>> {
    CACHE.with(|c| {
        c.borrow_mut()
            .entry(pattern)
            .or_insert_with(|| {
                Rc::new(compile(
                    TokenStream::from_str(pattern).expect("pattern does not lex"),
                ))
            })
            .clone()
    })
}

/// Captured holes.
#[derive(Default, Debug)]
pub struct Caps(HashMap<String, Vec<TT>>);

impl Caps {
    fn bind(&mut self, name: &str, toks: Vec<TT>) -> Result<(), String> {
        if let Some(prev) = self.0.get(name) {
            if !seq_eq(prev, &toks) {
                return Err(format!(
                    "`${}` was `{}` but is `{}` here",
                    name,
                    show(prev),
                    show(&toks)
                ));
            }
            return Ok(());
        }
        self.0.insert(name.to_string(), toks);
        Ok(())
    }

    pub fn many(&self, name: &str) -> &[TT] {
        self.0
            .get(name)
            .unwrap_or_else(|| panic!("no capture `{}`", name))
    }

    pub fn one(&self, name: &str) -> &TT {
        let v = self.many(name);
        assert!(v.len() == 1);
        &v[0]
    }

    /// The capture has to be a single identifier.
    pub fn ident(&self, name: &str) -> Result<String, String> {
        match self.many(name) {
            [TT::Ident(i)] => Ok(i.to_string()),
            other => Err(format!(
                "`${}`: expected an identifier, found `{}`",
                name,
                show(other)
            )),
        }
    }

    /// The capture has to be a single unsuffixed integer literal.
    pub fn int(&self, name: &str) -> Result<u128, String> {
        tokens_int(self.many(name)).map_err(|e| format!("`${}`: {}", name, e))
    }

    /// The capture has to be a single string literal; its value is returned.
    pub fn string(&self, name: &str) -> Result<String, String> {
        tokens_string(self.many(name)).map_err(|e| format!("`${}`: {}", name, e))
    }

    /// The capture has to be `true` or `false`.
    pub fn boolean(&self, name: &str) -> Result<bool, String> {
        match self.many(name) {
            [TT::Ident(i)] if i == "true" => Ok(true),
            [TT::Ident(i)] if i == "false" => Ok(false),
            other => Err(format!(
                "`${}`: expected true/false, found `{}`",
                name,
                show(other)
            )),
        }
    }

    /// The capture has to be a group with the given delimiter; its (normalised) contents.
    pub fn group(&self, name: &str, d: Delimiter) -> Result<Vec<TT>, String> {
        match self.many(name) {
            [TT::Group(g)] if g.delimiter() == d => Ok(group_tokens(g)),
            other => Err(format!(
                "`${}`: expected a {:?} group, found `{}`",
                name,
                d,
                show(other)
            )),
        }
    }
}

pub fn tokens_int(ts: &[TT]) -> Result<u128, String> {
    match ts {
        [TT::Literal(l)] => {
            let li: syn::LitInt = syn::parse_str(&l.to_string())
                .map_err(|_| format!("expected an integer literal, found `{}`", l))?;
            if !li.suffix().is_empty() {
                return Err(format!("integer literal `{}` has a suffix", l));
            }
            li.base10_digits()
                .parse::<u128>()
                .map_err(|e| format!("integer literal `{}`: {}", l, e))
        }
        other => Err(format!(
            "expected an integer literal, found `{}`",
            show(other)
        )),
    }
}

pub fn tokens_string(ts: &[TT]) -> Result<String, String> {
    match ts {
        [TT::Literal(l)] => {
            let ls: syn::LitStr = syn::parse_str(&l.to_string())
                .map_err(|_| format!("expected a string literal, found `{}`", truncate(&l.to_string(), 80)))?;
            if !ls.suffix().is_empty() {
                return Err("string literal has a suffix".to_string());
            }
            Ok(ls.value())
        }
        other => Err(format!(
            "expected a string literal, found `{}`",
            show(other)
        )),
    }
}

fn describe(p: &P) -> String {
    match p {
        P::Tok(t) => t.to_string(),
        P::Group(d, _) => format!("{:?} group", d),
        P::One(n) => format!("${}", n),
        P::Many(n) => format!("$[{}]", n),
    }
}

fn context(act: &[TT], j: usize) -> String {
    let lo = j.saturating_sub(4);
    let hi = (j + 3).min(act.len());
    format!("near `{}`", show(&act[lo..hi]))
}

fn m_seq(pat: &[P], act: &[TT], caps: &mut Caps, full: bool) -> Result<usize, String> {
    let mut j = 0usize;
    for (i, p) in pat.iter().enumerate() {
        match p {
            P::Tok(t) => match act.get(j) {
                Some(a) if tt_eq(t, a) => j += 1,
                Some(a) => {
                    return Err(format!(
                        "expected `{}`, found `{}` ({})",
                        t,
                        truncate(&a.to_string(), 80),
                        context(act, j)
                    ))
                }
                None => return Err(format!("expected `{}`, found end of tokens", t)),
            },
            P::Group(d, ps) => match act.get(j) {
                Some(TT::Group(g)) if g.delimiter() == *d => {
                    m_seq(ps, &group_tokens(g), caps, true)?;
                    j += 1;
                }
                Some(a) => {
                    return Err(format!(
                        "expected a {:?} group, found `{}` ({})",
                        d,
                        truncate(&a.to_string(), 80),
                        context(act, j)
                    ))
                }
                None => return Err(format!("expected a {:?} group, found end of tokens", d)),
            },
            P::One(name) => match act.get(j) {
                Some(a) => {
                    caps.bind(name, vec![a.clone()])?;
                    j += 1;
                }
                None => return Err(format!("expected `${}`, found end of tokens", name)),
            },
            P::Many(name) => {
                let end = match pat.get(i + 1) {
                    None => act.len(),
                    Some(P::Tok(t)) => match (j..act.len()).find(|&k| tt_eq(t, &act[k])) {
                        Some(k) => k,
                        None => {
                            return Err(format!(
                                "expected `{}` after `$[{}]` ({})",
                                t,
                                name,
                                context(act, j)
                            ))
                        }
                    },
                    Some(P::Group(d, _)) => match (j..act.len())
                        .find(|&k| matches!(&act[k], TT::Group(g) if g.delimiter() == *d))
                    {
                        Some(k) => k,
                        None => {
                            return Err(format!(
                                "expected a {:?} group after `$[{}]` ({})",
                                d,
                                name,
                                context(act, j)
                            ))
                        }
                    },
                    Some(other) => panic!(
                        "bad pattern: `$[{}]` followed by the hole {}",
                        name,
                        describe(other)
                    ),
                };
                caps.bind(name, act[j..end].to_vec())?;
                j = end;
            }
        }
    }
    if full && j != act.len() {
        return Err(format!("unexpected tokens `{}`", show(&act[j..])));
    }
    Ok(j)
}

/// Matches all of `act` against the pattern.
pub fn mt(pattern: &'static str, act: &[TT]) -> Result<Caps, String> {
    let p = compiled(pattern);
    let mut caps = Caps::default();
    m_seq(&p, act, &mut caps, true)?;
    Ok(caps)
}

/// Matches a prefix of `act`; returns the number of tokens consumed.
pub fn mt_prefix(pattern: &'static str, act: &[TT]) -> Result<(Caps, usize), String> {
    let p = compiled(pattern);
    let mut caps = Caps::default();
    let used = m_seq(&p, act, &mut caps, false)?;
    Ok((caps, used))
}

/// Exact comparison with a fixed text (no holes are interpreted specially
/// unless present in the text).
pub fn is_exact(pattern: &'static str, act: &[TT]) -> Result<(), String> {
    mt(pattern, act).map(|_| ())
}
