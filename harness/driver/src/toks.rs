//! Canonical token stream of the text returned by the generator, printed as a Coq term of type
//! `list tok` (see coq/Model/Render.v for the token conventions).
use crate::coqfmt;
use proc_macro2::{Delimiter, TokenStream, TokenTree};

fn is_word_char(c: char) -> bool {
    c.is_ascii_alphanumeric() || c == '_' || (c as u32) >= 128
}

/// the template lexer of Render.v: words of word characters, every other non-blank character alone
fn split_plain(text: &str, out: &mut Vec<String>) {
    let mut word = String::new();
    for c in text.chars() {
        if is_word_char(c) {
            word.push(c);
        } else {
            if !word.is_empty() {
                out.push(coqfmt::app("T", &[coqfmt::s(&word)]));
                word.clear();
            }
            if !c.is_whitespace() {
                out.push(coqfmt::app("T", &[coqfmt::s(&c.to_string())]));
            }
        }
    }
    if !word.is_empty() {
        out.push(coqfmt::app("T", &[coqfmt::s(&word)]));
    }
}

fn literal(text: &str, out: &mut Vec<String>) -> Result<(), String> {
    if text.starts_with('"') || text.starts_with("r\"") || text.starts_with("r#") {
        let lit: syn::LitStr = syn::parse_str(text).map_err(|e| format!("string literal {}: {}", text, e))?;
        out.push(coqfmt::app("TS", &[coqfmt::s(&lit.value())]));
        return Ok(());
    }
    if let Some(body) = text.strip_suffix("f32") {
        if let Ok(v) = body.replace('_', "").parse::<f32>() {
            out.push(coqfmt::app("TF32", &[coqfmt::n(v.to_bits())]));
            return Ok(());
        }
    }
    if let Some(body) = text.strip_suffix("f64") {
        if let Ok(v) = body.replace('_', "").parse::<f64>() {
            out.push(coqfmt::app("TF64", &[coqfmt::n(v.to_bits())]));
            return Ok(());
        }
    }
    split_plain(text, out);
    Ok(())
}

fn flatten(ts: TokenStream, out: &mut Vec<String>) -> Result<(), String> {
    for tt in ts {
        match tt {
            TokenTree::Group(g) => {
                let (open, close) = match g.delimiter() {
                    Delimiter::Parenthesis => ("(", ")"),
                    Delimiter::Brace => ("{", "}"),
                    Delimiter::Bracket => ("[", "]"),
                    Delimiter::None => ("", ""),
                };
                if !open.is_empty() {
                    out.push(coqfmt::app("T", &[coqfmt::s(open)]));
                }
                flatten(g.stream(), out)?;
                if !close.is_empty() {
                    out.push(coqfmt::app("T", &[coqfmt::s(close)]));
                }
            }
            TokenTree::Ident(i) => out.push(coqfmt::app("T", &[coqfmt::s(&i.to_string())])),
            TokenTree::Punct(p) => out.push(coqfmt::app("T", &[coqfmt::s(&p.as_char().to_string())])),
            TokenTree::Literal(l) => literal(&l.to_string(), out)?,
        }
    }
    Ok(())
}

/// `list tok` term for the text, or an error when the text does not even tokenise
pub fn tokens(text: &str) -> Result<String, String> {
    let ts: TokenStream = text.parse().map_err(|e| format!("returned text does not tokenise: {}", e))?;
    let mut out = Vec::new();
    flatten(ts, &mut out)?;
    Ok(coqfmt::list(out))
}
