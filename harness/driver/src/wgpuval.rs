//! `driver wgpu <cases.jsonl> <results.jsonl>`
//!
//! Uses the REAL shader-interface validation of `wgpu-core` 24.0.5
//! (`wgpu_core::validation::Interface::{new, check_stage}`, no device, no backend) as an
//! oracle for what the generator emits:
//!
//! * the `wgpu::BindGroupLayoutEntry` lists of `bind_groups::LAYOUT_DESCRIPTORn`
//!   (taken in pipeline-layout order, i.e. following `create_pipeline_layout` ->
//!   `BindGroupN::get_bind_group_layout` -> `LAYOUT_DESCRIPTORk`),
//! * the `VERTEX_ATTRIBUTES` of the vertex input structs and the `buffers` of the
//!   `<name>_entry` helpers.
//!
//! The generated TEXT is parsed with syn and the token expressions are evaluated here into
//! real `wgpu_types` values; whatever cannot be evaluated makes the case `skipped`.
//!
//! In addition every layout entry is run through a faithful re-implementation of the
//! per-entry checks of `Device::create_bind_group_layout` (wgpu-core 24.0.5,
//! `src/device/resource.rs` lines 1699-1887) - see [`check_bgl_entry`].
//!
//! Line numbers in comments refer to the sources in
//! `~/.cargo/registry/src/*/wgpu-core-24.0.5/src/`.

use crate::extract::R;
use crate::tokpat::{mt, norm, show, split_commas, to_stream, tokens_string};
use proc_macro2::{Delimiter, TokenTree as TT};
use quote::ToTokens;
use serde_json::{json, Value};
use std::collections::HashMap;
use std::io::{BufRead, BufWriter, Write};
use std::panic::{catch_unwind, AssertUnwindSafe};
use std::sync::atomic::{AtomicUsize, Ordering};
use std::sync::Mutex;
use wgpu_core::binding_model::{BindGroupLayoutEntryError, CreateBindGroupLayoutError};
use wgpu_core::device::{MissingDownlevelFlags, MissingFeatures};
use wgpu_core::validation::{BindingLayoutSource, Interface, InterfaceVar, StageError, StageIo};
use wgpu_types as wgt;

// ---------------------------------------------------------------------------------------------
// Evaluation of the generated token expressions into wgpu_types values
// ---------------------------------------------------------------------------------------------

/// `a::b::C` without generic arguments / qself -> segments.
fn path_segs(e: &syn::Expr) -> Option<Vec<String>> {
    match e {
        syn::Expr::Path(p) if p.qself.is_none() && p.attrs.is_empty() => plain_path(&p.path),
        syn::Expr::Paren(p) if p.attrs.is_empty() => path_segs(&p.expr),
        syn::Expr::Group(g) => path_segs(&g.expr),
        _ => None,
    }
}

fn plain_path(p: &syn::Path) -> Option<Vec<String>> {
    if p.segments
        .iter()
        .any(|s| !matches!(s.arguments, syn::PathArguments::None))
    {
        return None;
    }
    Some(p.segments.iter().map(|s| s.ident.to_string()).collect())
}

/// The generator always writes `wgpu::Type::Variant`; a path is accepted iff it is
/// `wgpu :: <ty> :: <variant>` and the variant is returned.
fn wgpu_variant(segs: &[String], ty: &str) -> Option<String> {
    match segs {
        [w, t, v] if w == "wgpu" && t == ty => Some(v.clone()),
        _ => None,
    }
}

fn cannot(what: &str, e: &dyn ToTokens) -> String {
    format!(
        "{} `{}`",
        what,
        crate::tokpat::truncate(&e.to_token_stream().to_string(), 200)
    )
}

fn eval_bool(e: &syn::Expr) -> R<bool> {
    match e {
        syn::Expr::Lit(syn::ExprLit {
            lit: syn::Lit::Bool(b),
            attrs,
        }) if attrs.is_empty() => Ok(b.value),
        syn::Expr::Paren(p) if p.attrs.is_empty() => eval_bool(&p.expr),
        _ => Err(cannot("boolean expression", e)),
    }
}

fn eval_u64(e: &syn::Expr) -> R<u64> {
    match e {
        syn::Expr::Lit(syn::ExprLit {
            lit: syn::Lit::Int(i),
            attrs,
        }) if attrs.is_empty() => i
            .base10_parse::<u64>()
            .map_err(|er| format!("integer literal `{}`: {}", i, er)),
        syn::Expr::Paren(p) if p.attrs.is_empty() => eval_u64(&p.expr),
        _ => Err(cannot("integer expression", e)),
    }
}

/// `wgpu::ShaderStages::{NONE,VERTEX,FRAGMENT,COMPUTE,VERTEX_FRAGMENT}`, `::all()`, `::empty()`,
/// `a.union(b)`, `a | b`, parentheses.
pub fn eval_stages(e: &syn::Expr) -> R<wgt::ShaderStages> {
    let bad = || cannot("shader stage expression", e);
    match e {
        syn::Expr::Path(_) => {
            let segs = path_segs(e).ok_or_else(bad)?;
            match wgpu_variant(&segs, "ShaderStages").as_deref() {
                Some("NONE") => Ok(wgt::ShaderStages::NONE),
                Some("VERTEX") => Ok(wgt::ShaderStages::VERTEX),
                Some("FRAGMENT") => Ok(wgt::ShaderStages::FRAGMENT),
                Some("COMPUTE") => Ok(wgt::ShaderStages::COMPUTE),
                Some("VERTEX_FRAGMENT") => Ok(wgt::ShaderStages::VERTEX_FRAGMENT),
                _ => Err(bad()),
            }
        }
        syn::Expr::Call(c) if c.args.is_empty() && c.attrs.is_empty() => {
            let segs = path_segs(&c.func).ok_or_else(bad)?;
            match wgpu_variant(&segs, "ShaderStages").as_deref() {
                Some("all") => Ok(wgt::ShaderStages::all()),
                Some("empty") => Ok(wgt::ShaderStages::empty()),
                _ => Err(bad()),
            }
        }
        syn::Expr::MethodCall(m)
            if m.method == "union" && m.turbofish.is_none() && m.args.len() == 1 && m.attrs.is_empty() =>
        {
            Ok(eval_stages(&m.receiver)?.union(eval_stages(&m.args[0])?))
        }
        syn::Expr::Binary(b) if matches!(b.op, syn::BinOp::BitOr(_)) && b.attrs.is_empty() => {
            Ok(eval_stages(&b.left)? | eval_stages(&b.right)?)
        }
        syn::Expr::Paren(p) if p.attrs.is_empty() => eval_stages(&p.expr),
        _ => Err(bad()),
    }
}

/// Named fields of a struct literal; exactly the given names (any order), no `..rest`.
fn struct_fields<'a>(s: &'a syn::ExprStruct, names: &[&str]) -> R<Vec<&'a syn::Expr>> {
    if s.rest.is_some() || s.dot2_token.is_some() || s.qself.is_some() || !s.attrs.is_empty() {
        return Err(cannot("struct literal with `..`/attributes", s));
    }
    if s.fields.len() != names.len() {
        return Err(cannot(
            &format!("struct literal (expected the fields {:?})", names),
            s,
        ));
    }
    let mut out = Vec::new();
    for n in names {
        let mut found = None;
        for f in &s.fields {
            if let syn::Member::Named(id) = &f.member {
                if id == n {
                    if found.is_some() {
                        return Err(cannot(&format!("struct literal with duplicate field `{}`", n), s));
                    }
                    found = Some(&f.expr);
                }
            }
        }
        out.push(found.ok_or_else(|| cannot(&format!("struct literal without field `{}`", n), s))?);
    }
    Ok(out)
}

const VIEW_DIMS: [wgt::TextureViewDimension; 6] = [
    wgt::TextureViewDimension::D1,
    wgt::TextureViewDimension::D2,
    wgt::TextureViewDimension::D2Array,
    wgt::TextureViewDimension::Cube,
    wgt::TextureViewDimension::CubeArray,
    wgt::TextureViewDimension::D3,
];

/// Every `wgt::TextureFormat` of wgpu-types 24.0.0 except the parameterised `Astc { .. }`.
const TEXTURE_FORMATS: [wgt::TextureFormat; 75] = {
    use wgt::TextureFormat::*;
    [
        R8Unorm, R8Snorm, R8Uint, R8Sint, R16Uint, R16Sint, R16Unorm, R16Snorm, R16Float, Rg8Unorm,
        Rg8Snorm, Rg8Uint, Rg8Sint, R32Uint, R32Sint, R32Float, Rg16Uint, Rg16Sint, Rg16Unorm,
        Rg16Snorm, Rg16Float, Rgba8Unorm, Rgba8UnormSrgb, Rgba8Snorm, Rgba8Uint, Rgba8Sint,
        Bgra8Unorm, Bgra8UnormSrgb, Rgb9e5Ufloat, Rgb10a2Uint, Rgb10a2Unorm, Rg11b10Ufloat, R64Uint,
        Rg32Uint, Rg32Sint, Rg32Float, Rgba16Uint, Rgba16Sint, Rgba16Unorm, Rgba16Snorm, Rgba16Float,
        Rgba32Uint, Rgba32Sint, Rgba32Float, Stencil8, Depth16Unorm, Depth24Plus, Depth24PlusStencil8,
        Depth32Float, Depth32FloatStencil8, NV12, Bc1RgbaUnorm, Bc1RgbaUnormSrgb, Bc2RgbaUnorm,
        Bc2RgbaUnormSrgb, Bc3RgbaUnorm, Bc3RgbaUnormSrgb, Bc4RUnorm, Bc4RSnorm, Bc5RgUnorm, Bc5RgSnorm,
        Bc6hRgbUfloat, Bc6hRgbFloat, Bc7RgbaUnorm, Bc7RgbaUnormSrgb, Etc2Rgb8Unorm, Etc2Rgb8UnormSrgb,
        Etc2Rgb8A1Unorm, Etc2Rgb8A1UnormSrgb, Etc2Rgba8Unorm, Etc2Rgba8UnormSrgb, EacR11Unorm,
        EacR11Snorm, EacRg11Unorm, EacRg11Snorm,
    ]
};

/// Every `wgt::VertexFormat` of wgpu-types 24.0.0 (discriminants 0..=44).
const VERTEX_FORMATS: [wgt::VertexFormat; 45] = {
    use wgt::VertexFormat::*;
    [
        Uint8, Uint8x2, Uint8x4, Sint8, Sint8x2, Sint8x4, Unorm8, Unorm8x2, Unorm8x4, Snorm8, Snorm8x2,
        Snorm8x4, Uint16, Uint16x2, Uint16x4, Sint16, Sint16x2, Sint16x4, Unorm16, Unorm16x2,
        Unorm16x4, Snorm16, Snorm16x2, Snorm16x4, Float16, Float16x2, Float16x4, Float32, Float32x2,
        Float32x3, Float32x4, Uint32, Uint32x2, Uint32x3, Uint32x4, Sint32, Sint32x2, Sint32x3,
        Sint32x4, Float64, Float64x2, Float64x3, Float64x4, Unorm10_10_10_2, Unorm8x4Bgra,
    ]
};

/// Enum variant lookup by its `Debug` name (the variant identifier for field-less variants).
fn by_debug_name<T: Copy + std::fmt::Debug>(all: &[T], name: &str, what: &str) -> R<T> {
    all.iter()
        .copied()
        .find(|v| format!("{:?}", v) == name)
        .ok_or_else(|| format!("unknown {}::{}", what, name))
}

fn eval_enum<T: Copy + std::fmt::Debug>(e: &syn::Expr, ty: &str, all: &[T]) -> R<T> {
    let segs = path_segs(e).ok_or_else(|| cannot(&format!("{} expression", ty), e))?;
    let v = wgpu_variant(&segs, ty).ok_or_else(|| cannot(&format!("{} expression", ty), e))?;
    by_debug_name(all, &v, ty)
}

/// `None`, `Some(<n>)`, `Some(std::num::NonZeroU64::new(<n>).unwrap())`, `std::num::NonZeroU64::new(<n>)`,
/// `wgpu::BufferSize::new(<n>)` (the generator only ever writes `None`).
fn eval_opt_nonzero(e: &syn::Expr) -> R<Option<u64>> {
    let bad = || cannot("optional non-zero expression", e);
    match e {
        syn::Expr::Path(_) => match path_segs(e).ok_or_else(bad)?.as_slice() {
            [n] if n == "None" => Ok(None),
            _ => Err(bad()),
        },
        syn::Expr::Paren(p) if p.attrs.is_empty() => eval_opt_nonzero(&p.expr),
        syn::Expr::Call(c) if c.args.len() == 1 && c.attrs.is_empty() => {
            let f = path_segs(&c.func).ok_or_else(bad)?;
            let last = f.last().map(String::as_str);
            let first_ok = |tys: &[&str]| f.len() >= 2 && tys.contains(&f[f.len() - 2].as_str());
            if f.len() == 1 && last == Some("Some") {
                // Some(<nonzero expr>)
                let inner = &c.args[0];
                let v = match inner {
                    syn::Expr::MethodCall(m)
                        if m.method == "unwrap" && m.args.is_empty() && m.turbofish.is_none() =>
                    {
                        eval_opt_nonzero(&m.receiver)?
                    }
                    _ => return Err(bad()),
                };
                v.map(Some).ok_or_else(|| cannot("`Some(None.unwrap())`", e))
            } else if last == Some("new") && first_ok(&["NonZeroU64", "NonZeroU32", "BufferSize"]) {
                let n = eval_u64(&c.args[0])?;
                Ok(if n == 0 { None } else { Some(n) })
            } else {
                Err(bad())
            }
        }
        _ => Err(bad()),
    }
}

/// All variants of `wgpu::BindingType` with all their fields.
pub fn eval_binding_type(e: &syn::Expr) -> R<wgt::BindingType> {
    let bad = || cannot("binding type expression", e);
    match e {
        syn::Expr::Paren(p) if p.attrs.is_empty() => eval_binding_type(&p.expr),
        syn::Expr::Struct(s) => {
            let segs = plain_path(&s.path).ok_or_else(bad)?;
            match wgpu_variant(&segs, "BindingType").as_deref() {
                Some("Buffer") => {
                    let f = struct_fields(s, &["ty", "has_dynamic_offset", "min_binding_size"])?;
                    let ty = match f[0] {
                        syn::Expr::Struct(bs) => {
                            let bsegs = plain_path(&bs.path).ok_or_else(bad)?;
                            if wgpu_variant(&bsegs, "BufferBindingType").as_deref() != Some("Storage") {
                                return Err(cannot("buffer binding type", f[0]));
                            }
                            let bf = struct_fields(bs, &["read_only"])?;
                            wgt::BufferBindingType::Storage {
                                read_only: eval_bool(bf[0])?,
                            }
                        }
                        other => {
                            let bsegs =
                                path_segs(other).ok_or_else(|| cannot("buffer binding type", other))?;
                            match wgpu_variant(&bsegs, "BufferBindingType").as_deref() {
                                Some("Uniform") => wgt::BufferBindingType::Uniform,
                                _ => return Err(cannot("buffer binding type", other)),
                            }
                        }
                    };
                    Ok(wgt::BindingType::Buffer {
                        ty,
                        has_dynamic_offset: eval_bool(f[1])?,
                        min_binding_size: eval_opt_nonzero(f[2])?
                            .map(|n| wgt::BufferSize::new(n).expect("non-zero")),
                    })
                }
                Some("Texture") => {
                    let f = struct_fields(s, &["sample_type", "view_dimension", "multisampled"])?;
                    let sample_type = match f[0] {
                        syn::Expr::Struct(ss) => {
                            let ssegs = plain_path(&ss.path).ok_or_else(bad)?;
                            if wgpu_variant(&ssegs, "TextureSampleType").as_deref() != Some("Float") {
                                return Err(cannot("texture sample type", f[0]));
                            }
                            let sf = struct_fields(ss, &["filterable"])?;
                            wgt::TextureSampleType::Float {
                                filterable: eval_bool(sf[0])?,
                            }
                        }
                        other => {
                            let ssegs =
                                path_segs(other).ok_or_else(|| cannot("texture sample type", other))?;
                            match wgpu_variant(&ssegs, "TextureSampleType").as_deref() {
                                Some("Sint") => wgt::TextureSampleType::Sint,
                                Some("Uint") => wgt::TextureSampleType::Uint,
                                Some("Depth") => wgt::TextureSampleType::Depth,
                                _ => return Err(cannot("texture sample type", other)),
                            }
                        }
                    };
                    Ok(wgt::BindingType::Texture {
                        sample_type,
                        view_dimension: eval_enum(f[1], "TextureViewDimension", &VIEW_DIMS)?,
                        multisampled: eval_bool(f[2])?,
                    })
                }
                Some("StorageTexture") => {
                    let f = struct_fields(s, &["access", "format", "view_dimension"])?;
                    Ok(wgt::BindingType::StorageTexture {
                        access: eval_enum(
                            f[0],
                            "StorageTextureAccess",
                            &[
                                wgt::StorageTextureAccess::WriteOnly,
                                wgt::StorageTextureAccess::ReadOnly,
                                wgt::StorageTextureAccess::ReadWrite,
                                wgt::StorageTextureAccess::Atomic,
                            ],
                        )?,
                        format: eval_enum(f[1], "TextureFormat", &TEXTURE_FORMATS)?,
                        view_dimension: eval_enum(f[2], "TextureViewDimension", &VIEW_DIMS)?,
                    })
                }
                _ => Err(bad()),
            }
        }
        syn::Expr::Call(c) if c.args.len() == 1 && c.attrs.is_empty() => {
            let segs = path_segs(&c.func).ok_or_else(bad)?;
            if wgpu_variant(&segs, "BindingType").as_deref() != Some("Sampler") {
                return Err(bad());
            }
            Ok(wgt::BindingType::Sampler(eval_enum(
                &c.args[0],
                "SamplerBindingType",
                &[
                    wgt::SamplerBindingType::Filtering,
                    wgt::SamplerBindingType::NonFiltering,
                    wgt::SamplerBindingType::Comparison,
                ],
            )?))
        }
        syn::Expr::Path(_) => {
            let segs = path_segs(e).ok_or_else(bad)?;
            match wgpu_variant(&segs, "BindingType").as_deref() {
                Some("AccelerationStructure") => Ok(wgt::BindingType::AccelerationStructure),
                _ => Err(bad()),
            }
        }
        _ => Err(bad()),
    }
}

/// `wgpu::BindGroupLayoutEntry { binding, visibility, ty, count }`
fn eval_layout_entry(e: &syn::Expr) -> R<wgt::BindGroupLayoutEntry> {
    let s = match e {
        syn::Expr::Struct(s) => s,
        _ => return Err(cannot("layout entry", e)),
    };
    match plain_path(&s.path).as_deref() {
        Some([w, t]) if w == "wgpu" && t == "BindGroupLayoutEntry" => {}
        _ => return Err(cannot("layout entry", e)),
    }
    let f = struct_fields(s, &["binding", "visibility", "ty", "count"])?;
    let binding = eval_u64(f[0])?;
    let binding = u32::try_from(binding).map_err(|_| format!("binding {} does not fit u32", binding))?;
    let count = match eval_opt_nonzero(f[3])? {
        None => None,
        Some(n) => Some(
            std::num::NonZeroU32::new(u32::try_from(n).map_err(|_| format!("count {} does not fit u32", n))?)
                .expect("non-zero"),
        ),
    };
    Ok(wgt::BindGroupLayoutEntry {
        binding,
        visibility: eval_stages(f[1]).map_err(|er| format!("binding {}: {}", binding, er))?,
        ty: eval_binding_type(f[2]).map_err(|er| format!("binding {}: {}", binding, er))?,
        count,
    })
}

// ---------------------------------------------------------------------------------------------
// Extraction from the generated text
// ---------------------------------------------------------------------------------------------

pub struct Group {
    /// position in `bind_group_layouts` of `create_pipeline_layout` = the group index wgpu uses
    pub index: usize,
    /// N of `bind_groups::BindGroupN`
    pub bind_group_no: u128,
    /// k of the `LAYOUT_DESCRIPTORk` that `BindGroupN::get_bind_group_layout` passes to the device
    pub descriptor_no: u128,
    pub entries: Vec<wgt::BindGroupLayoutEntry>,
}

pub struct VStruct {
    pub name: String,
    pub declared_len: u128,
    pub attributes: Vec<(wgt::VertexFormat, u32)>,
}

pub struct VEntry {
    pub fn_name: String,
    pub entry_const: String,
    /// value of the `ENTRY_*` constant
    pub entry_point: String,
    pub buffers: Vec<String>,
    pub declared_len: u128,
}

pub struct Extracted {
    pub groups: Vec<Group>,
    pub vstructs: Vec<VStruct>,
    pub ventries: Vec<VEntry>,
}

fn suffix_no(ident: &str, prefix: &str) -> R<u128> {
    let err = || format!("`{}` is not `{}<n>`", ident, prefix);
    let d = ident.strip_prefix(prefix).ok_or_else(err)?;
    let v: u128 = d.parse().map_err(|_| err())?;
    if v.to_string() != d {
        return Err(err());
    }
    Ok(v)
}

const VERTEX_IMPL: &str = "impl $S {
    pub const VERTEX_ATTRIBUTES : [wgpu :: VertexAttribute ; $n] = $attrs ;
    pub const fn vertex_buffer_layout (step_mode : wgpu :: VertexStepMode) -> wgpu :: VertexBufferLayout < 'static > {
        wgpu :: VertexBufferLayout {
            array_stride : std :: mem :: size_of :: < $S2 > () as u64 ,
            step_mode ,
            attributes : & $S3 :: VERTEX_ATTRIBUTES
        }
    }
}";

fn parse_expr(toks: &[TT], what: &str) -> R<syn::Expr> {
    syn::parse2(to_stream(toks)).map_err(|e| format!("{} `{}`: {}", what, show(toks), e))
}

fn layout_descriptor(toks: &[TT]) -> R<(u128, Vec<wgt::BindGroupLayoutEntry>)> {
    let c = mt(
        "const $d : wgpu :: BindGroupLayoutDescriptor = wgpu :: BindGroupLayoutDescriptor { label : $[label] , entries : & $entries } ;",
        toks,
    )
    .map_err(|e| format!("layout descriptor: {}", e))?;
    let name = c.ident("d")?;
    let no = suffix_no(&name, "LAYOUT_DESCRIPTOR")?;
    let mut entries = Vec::new();
    for e in split_commas(&c.group("entries", Delimiter::Bracket)?) {
        let expr = parse_expr(&e, "layout entry")?;
        entries.push(eval_layout_entry(&expr).map_err(|er| format!("{}: {}", name, er))?);
    }
    Ok((no, entries))
}

fn vertex_impl(toks: &[TT]) -> R<VStruct> {
    let c = mt(VERTEX_IMPL, toks).map_err(|e| format!("vertex input impl: {}", e))?;
    let name = c.ident("S")?;
    if c.ident("S2")? != name || c.ident("S3")? != name {
        return Err(format!(
            "impl {}: vertex_buffer_layout refers to `{}` / `{}`",
            name,
            c.ident("S2")?,
            c.ident("S3")?
        ));
    }
    let mut attributes = Vec::new();
    for a in split_commas(&c.group("attrs", Delimiter::Bracket)?) {
        let ca = mt(
            "wgpu :: VertexAttribute { format : wgpu :: VertexFormat :: $fmt , offset : $[off] , shader_location : $loc }",
            &a,
        )
        .map_err(|e| format!("impl {}: vertex attribute: {}", name, e))?;
        let fmt = by_debug_name(&VERTEX_FORMATS, &ca.ident("fmt")?, "VertexFormat")?;
        let loc = ca.int("loc")?;
        let loc = u32::try_from(loc).map_err(|_| format!("shader_location {} does not fit u32", loc))?;
        attributes.push((fmt, loc));
    }
    Ok(VStruct {
        name,
        declared_len: c.int("n")?,
        attributes,
    })
}

fn vertex_entry(toks: &[TT], entry_consts: &HashMap<String, String>) -> R<VEntry> {
    let c = mt(
        "pub fn $f $params -> VertexEntry < $n > { VertexEntry { entry_point : $c , buffers : $bufs , constants : $[k] } }",
        toks,
    )
    .map_err(|e| format!("vertex entry fn: {}", e))?;
    let fn_name = c.ident("f")?;
    let entry_const = c.ident("c")?;
    let entry_point = entry_consts
        .get(&entry_const)
        .cloned()
        .ok_or_else(|| format!("fn {}: entry_point `{}` is not a known ENTRY_* constant", fn_name, entry_const))?;
    let mut buffers = Vec::new();
    for e in split_commas(&c.group("bufs", Delimiter::Bracket)?) {
        let cb = mt("$S :: vertex_buffer_layout ($p)", &e)
            .map_err(|er| format!("fn {}: buffers: {}", fn_name, er))?;
        buffers.push(cb.ident("S")?);
    }
    Ok(VEntry {
        fn_name,
        entry_const,
        entry_point,
        buffers,
        declared_len: c.int("n")?,
    })
}

fn pipeline_layout_groups(toks: &[TT]) -> R<Vec<u128>> {
    let c = mt(
        "pub fn create_pipeline_layout (device : & wgpu :: Device) -> wgpu :: PipelineLayout {
            device . create_pipeline_layout (& wgpu :: PipelineLayoutDescriptor {
                label : $[label] ,
                bind_group_layouts : & $bgl ,
                push_constant_ranges : & $pcr
            })
        }",
        toks,
    )
    .map_err(|e| format!("fn create_pipeline_layout: {}", e))?;
    let mut groups = Vec::new();
    for g in split_commas(&c.group("bgl", Delimiter::Bracket)?) {
        let cg = mt("& bind_groups :: $g :: get_bind_group_layout (device)", &g)
            .map_err(|e| format!("create_pipeline_layout: bind_group_layouts: {}", e))?;
        groups.push(suffix_no(&cg.ident("g")?, "BindGroup")?);
    }
    Ok(groups)
}

fn fn_returns(f: &syn::ItemFn, first_segment: &str) -> bool {
    if let syn::ReturnType::Type(_, t) = &f.sig.output {
        if let syn::Type::Path(p) = &**t {
            if let Some(seg) = p.path.segments.first() {
                return p.qself.is_none() && seg.ident == first_segment;
            }
        }
    }
    false
}

/// What the oracle needs from the generated text. Unlike `extract::extract` this is not a
/// strict template match of the whole file: only the items that carry layout information
/// are looked at, but those have to be evaluated completely.
pub fn extract(text: &str) -> R<Extracted> {
    let file = syn::parse_file(text).map_err(|e| format!("syn::parse_file failed: {}", e))?;
    let mut descriptors: HashMap<u128, Vec<wgt::BindGroupLayoutEntry>> = HashMap::new();
    let mut group_descriptor: HashMap<u128, u128> = HashMap::new();
    let mut vstructs: Vec<VStruct> = Vec::new();
    let mut entry_consts: HashMap<String, String> = HashMap::new();
    let mut ventry_toks: Vec<Vec<TT>> = Vec::new();
    let mut pl_groups: Option<Vec<u128>> = None;

    for item in &file.items {
        match item {
            syn::Item::Mod(m) if m.ident == "bind_groups" => {
                let (_, items) = m
                    .content
                    .as_ref()
                    .ok_or_else(|| "mod bind_groups: no body".to_string())?;
                for it in items {
                    match it {
                        syn::Item::Const(k) if k.ident.to_string().starts_with("LAYOUT_DESCRIPTOR") => {
                            let (no, entries) = layout_descriptor(&norm(it.to_token_stream()))?;
                            if descriptors.insert(no, entries).is_some() {
                                return Err(format!("LAYOUT_DESCRIPTOR{} is defined twice", no));
                            }
                        }
                        syn::Item::Impl(im) if im.trait_.is_none() => {
                            let ty = im.self_ty.to_token_stream().to_string();
                            let no = match suffix_no(&ty, "BindGroup") {
                                Ok(no) => no,
                                Err(_) => continue, // `impl BindGroups<'_>` etc.
                            };
                            for ii in &im.items {
                                if let syn::ImplItem::Fn(f) = ii {
                                    if f.sig.ident == "get_bind_group_layout" {
                                        let body = norm(f.block.to_token_stream());
                                        let c = mt("{ device . create_bind_group_layout (& $d) }", &body)
                                            .map_err(|e| {
                                                format!("BindGroup{}::get_bind_group_layout: {}", no, e)
                                            })?;
                                        let d = suffix_no(&c.ident("d")?, "LAYOUT_DESCRIPTOR")?;
                                        if group_descriptor.insert(no, d).is_some() {
                                            return Err(format!("BindGroup{} has two impls", no));
                                        }
                                    }
                                }
                            }
                        }
                        _ => {}
                    }
                }
            }
            syn::Item::Impl(im) if im.trait_.is_none() => {
                let has_attrs = im.items.iter().any(
                    |ii| matches!(ii, syn::ImplItem::Const(k) if k.ident == "VERTEX_ATTRIBUTES"),
                );
                if has_attrs {
                    vstructs.push(vertex_impl(&norm(item.to_token_stream()))?);
                }
            }
            syn::Item::Const(k)
                if k.ident.to_string().starts_with("ENTRY_") && matches!(&*k.ty, syn::Type::Reference(_)) =>
            {
                let toks = norm(item.to_token_stream());
                let c = mt("pub const $name : & str = $[v] ;", &toks)
                    .map_err(|e| format!("entry constant: {}", e))?;
                let value = tokens_string(c.many("v")).map_err(|e| format!("entry constant: {}", e))?;
                // a duplicate ENTRY_* constant does not compile; the first one is kept and the
                // problem is not this oracle's business
                entry_consts.entry(c.ident("name")?).or_insert(value);
            }
            syn::Item::Fn(f) if fn_returns(f, "VertexEntry") => {
                ventry_toks.push(norm(item.to_token_stream()));
            }
            syn::Item::Fn(f) if f.sig.ident == "create_pipeline_layout" => {
                pl_groups = Some(pipeline_layout_groups(&norm(item.to_token_stream()))?);
            }
            _ => {}
        }
    }

    let mut ventries = Vec::new();
    for t in &ventry_toks {
        ventries.push(vertex_entry(t, &entry_consts)?);
    }

    let pl_groups = pl_groups.ok_or_else(|| "no fn create_pipeline_layout".to_string())?;
    let mut groups = Vec::new();
    for (index, no) in pl_groups.iter().enumerate() {
        let d = *group_descriptor
            .get(no)
            .ok_or_else(|| format!("pipeline layout uses BindGroup{} which has no get_bind_group_layout", no))?;
        let entries = descriptors
            .get(&d)
            .cloned()
            .ok_or_else(|| format!("BindGroup{} uses LAYOUT_DESCRIPTOR{} which is not defined", no, d))?;
        groups.push(Group {
            index,
            bind_group_no: *no,
            descriptor_no: d,
            entries,
        });
    }
    Ok(Extracted {
        groups,
        vstructs,
        ventries,
    })
}

// ---------------------------------------------------------------------------------------------
// Device::create_bind_group_layout, per-entry checks (pure re-implementation)
// ---------------------------------------------------------------------------------------------

/// Faithful copy of the loop body of `Device::create_bind_group_layout`
/// (wgpu-core 24.0.5 `src/device/resource.rs` lines 1711-1887), with `self.features` and
/// `self.downlevel.flags` as parameters. The real error types are returned.
///
/// Not covered (needs crate-private types or a hal device): the hal call (1889-1899) and
/// `BindingTypeMaxCountValidator` (1901-1909, `pub(crate)`).
pub fn check_bgl_entry(
    entry: &wgt::BindGroupLayoutEntry,
    features: wgt::Features,
    downlevel: wgt::DownlevelFlags,
) -> Result<(), CreateBindGroupLayoutError> {
    use wgt::BindingType as Bt;

    // resource.rs:1705-1709
    #[derive(PartialEq)]
    enum WritableStorage {
        Yes,
        No,
    }
    let entry_err = |error| CreateBindGroupLayoutError::Entry {
        binding: entry.binding,
        error,
    };

    // resource.rs:1714-1715
    let mut required_features = wgt::Features::empty();
    let mut required_downlevel_flags = wgt::DownlevelFlags::empty();
    // resource.rs:1716
    let (array_feature, writable_storage) = match entry.ty {
        // resource.rs:1717-1732 uniform buffers (with or without dynamic offset)
        Bt::Buffer {
            ty: wgt::BufferBindingType::Uniform,
            has_dynamic_offset: _,
            min_binding_size: _,
        } => (Some(wgt::Features::BUFFER_BINDING_ARRAY), WritableStorage::No),
        // resource.rs:1733-1745 storage buffers
        Bt::Buffer {
            ty: wgt::BufferBindingType::Storage { read_only },
            ..
        } => (
            Some(wgt::Features::BUFFER_BINDING_ARRAY | wgt::Features::STORAGE_RESOURCE_BINDING_ARRAY),
            match read_only {
                true => WritableStorage::No,
                false => WritableStorage::Yes,
            },
        ),
        // resource.rs:1746-1749
        Bt::Sampler { .. } => (Some(wgt::Features::TEXTURE_BINDING_ARRAY), WritableStorage::No),
        // resource.rs:1750-1760 multisampled + Float{filterable:true} is rejected
        Bt::Texture {
            multisampled: true,
            sample_type: wgt::TextureSampleType::Float { filterable: true },
            ..
        } => {
            return Err(entry_err(
                BindGroupLayoutEntryError::SampleTypeFloatFilterableBindingMultisampled,
            ));
        }
        // resource.rs:1761-1777 multisampled needs a D2 view
        Bt::Texture {
            multisampled,
            view_dimension,
            ..
        } => {
            if multisampled && view_dimension != wgt::TextureViewDimension::D2 {
                return Err(entry_err(BindGroupLayoutEntryError::Non2DMultisampled(view_dimension)));
            }
            (Some(wgt::Features::TEXTURE_BINDING_ARRAY), WritableStorage::No)
        }
        // resource.rs:1778-1837 storage textures (NB: `format: _` - the format is not looked at here,
        // it is checked against the view's format features in create_bind_group, 2503-2575)
        Bt::StorageTexture {
            access,
            view_dimension,
            format: _,
        } => {
            // resource.rs:1783-1791 no cube views
            match view_dimension {
                wgt::TextureViewDimension::Cube | wgt::TextureViewDimension::CubeArray => {
                    return Err(entry_err(BindGroupLayoutEntryError::StorageTextureCube))
                }
                _ => (),
            }
            // resource.rs:1792-1813
            match access {
                wgt::StorageTextureAccess::Atomic if !features.contains(wgt::Features::TEXTURE_ATOMIC) => {
                    return Err(entry_err(BindGroupLayoutEntryError::StorageTextureAtomic));
                }
                wgt::StorageTextureAccess::ReadOnly | wgt::StorageTextureAccess::ReadWrite
                    if !features.contains(wgt::Features::TEXTURE_ADAPTER_SPECIFIC_FORMAT_FEATURES) =>
                {
                    return Err(entry_err(BindGroupLayoutEntryError::StorageTextureReadWrite));
                }
                _ => (),
            }
            // resource.rs:1814-1837
            (
                Some(wgt::Features::TEXTURE_BINDING_ARRAY | wgt::Features::STORAGE_RESOURCE_BINDING_ARRAY),
                match access {
                    wgt::StorageTextureAccess::WriteOnly => WritableStorage::Yes,
                    wgt::StorageTextureAccess::ReadOnly => {
                        required_features |= wgt::Features::TEXTURE_ADAPTER_SPECIFIC_FORMAT_FEATURES;
                        WritableStorage::No
                    }
                    wgt::StorageTextureAccess::ReadWrite => {
                        required_features |= wgt::Features::TEXTURE_ADAPTER_SPECIFIC_FORMAT_FEATURES;
                        WritableStorage::Yes
                    }
                    wgt::StorageTextureAccess::Atomic => {
                        required_features |= wgt::Features::TEXTURE_ATOMIC;
                        WritableStorage::Yes
                    }
                },
            )
        }
        // resource.rs:1838
        Bt::AccelerationStructure => (None, WritableStorage::No),
    };

    // resource.rs:1841-1849 `count: Some(_)` needs the binding-array feature of the type
    if entry.count.is_some() {
        required_features |= array_feature
            .ok_or(BindGroupLayoutEntryError::ArrayUnsupported)
            .map_err(entry_err)?;
    }

    // resource.rs:1851-1855 unknown visibility bits
    if entry.visibility | wgt::ShaderStages::all() != wgt::ShaderStages::all() {
        return Err(CreateBindGroupLayoutError::InvalidVisibility(entry.visibility));
    }

    // resource.rs:1857-1868 writable storage visible to the vertex stage
    if entry.visibility.contains(wgt::ShaderStages::VERTEX) {
        if writable_storage == WritableStorage::Yes {
            required_features |= wgt::Features::VERTEX_WRITABLE_STORAGE;
        }
        if let Bt::Buffer {
            ty: wgt::BufferBindingType::Storage { .. },
            ..
        } = entry.ty
        {
            required_downlevel_flags |= wgt::DownlevelFlags::VERTEX_STORAGE;
        }
    }
    // resource.rs:1869-1873
    if writable_storage == WritableStorage::Yes && entry.visibility.contains(wgt::ShaderStages::FRAGMENT) {
        required_downlevel_flags |= wgt::DownlevelFlags::FRAGMENT_WRITABLE_STORAGE;
    }

    // resource.rs:1875-1880 + Device::require_features (resource.rs:171-177)
    if !features.contains(required_features) {
        return Err(entry_err(BindGroupLayoutEntryError::MissingFeatures(MissingFeatures(
            required_features,
        ))));
    }
    // resource.rs:1881-1886 + Device::require_downlevel_flags (resource.rs:179-188)
    if !downlevel.contains(required_downlevel_flags) {
        return Err(entry_err(BindGroupLayoutEntryError::MissingDownlevelFlags(
            MissingDownlevelFlags(required_downlevel_flags),
        )));
    }
    Ok(())
}

/// `bgl::EntryMap::from_entries` (wgpu-core 24.0.5 `src/device/bgl.rs` lines 66-91), called by
/// `Global::device_create_bind_group_layout` (`src/device/global.rs` line 587) before the
/// per-entry checks: binding index limit and duplicate bindings.
pub fn check_bgl_group(
    entries: &[wgt::BindGroupLayoutEntry],
    limits: &wgt::Limits,
) -> Result<(), CreateBindGroupLayoutError> {
    let mut seen = std::collections::HashSet::new();
    for entry in entries {
        // bgl.rs:72-79
        if entry.binding >= limits.max_bindings_per_bind_group {
            return Err(CreateBindGroupLayoutError::InvalidBindingIndex {
                binding: entry.binding,
                maximum: limits.max_bindings_per_bind_group,
            });
        }
        // bgl.rs:80-84
        if !seen.insert(entry.binding) {
            return Err(CreateBindGroupLayoutError::ConflictBinding(entry.binding));
        }
    }
    Ok(())
}

/// What `Device::create_bind_group` demands of the *format* of a storage texture binding
/// (wgpu-core 24.0.5 `src/device/resource.rs` lines 2531-2575) when the device falls back on
/// `TextureFormat::guaranteed_format_features(device.features)` (`describe_format_features`,
/// resource.rs:3605-3626: no TEXTURE_ADAPTER_SPECIFIC_FORMAT_FEATURES, no downlevel). A view with
/// a format other than the layout's is rejected anyway (2508-2514), so this is a property of the
/// layout entry. Returns the Debug text of the `CreateBindGroupError` the real code would produce.
pub fn check_storage_format(ty: &wgt::BindingType, features: wgt::Features) -> Option<Result<(), String>> {
    use wgt::TextureFormatFeatureFlags as F;
    let (access, format) = match *ty {
        wgt::BindingType::StorageTexture { access, format, .. } => (access, format),
        _ => return None,
    };
    // resource.rs:3609 `self.require_features(format.required_features())`
    if !features.contains(format.required_features()) {
        return Some(Err(format!(
            "MissingFeatures({:?})",
            format.required_features()
        )));
    }
    let flags = format.guaranteed_format_features(features).flags;
    let (need, err) = match access {
        wgt::StorageTextureAccess::WriteOnly => (F::STORAGE_WRITE_ONLY, "StorageWriteNotSupported"),
        wgt::StorageTextureAccess::ReadOnly => (F::STORAGE_READ_ONLY, "StorageReadNotSupported"),
        wgt::StorageTextureAccess::ReadWrite => (F::STORAGE_READ_WRITE, "StorageReadWriteNotSupported"),
        wgt::StorageTextureAccess::Atomic => (F::STORAGE_ATOMIC, "StorageAtomicNotSupported"),
    };
    Some(if flags.contains(need) {
        Ok(())
    } else {
        Err(format!("{}({:?})", err, format))
    })
}

// ---------------------------------------------------------------------------------------------
// The oracle
// ---------------------------------------------------------------------------------------------

fn display_chain(e: &dyn std::error::Error) -> String {
    let mut s = e.to_string();
    let mut cur = e.source();
    while let Some(c) = cur {
        s.push_str(": ");
        s.push_str(&c.to_string());
        cur = c.source();
    }
    s
}

/// `wgt::Limits::default()` with everything the interface validation looks at raised so that
/// only layout/interface mismatches remain. `max_bind_groups` cannot exceed
/// `wgpu_core::MAX_BIND_GROUPS` (8): `BindingLayoutSource` holds an `ArrayVec` of that capacity.
pub fn generous_limits() -> wgt::Limits {
    let mut l = wgt::Limits::default();
    l.max_bind_groups = wgpu_core::MAX_BIND_GROUPS as u32;
    l.max_bindings_per_bind_group = u32::MAX;
    l.max_inter_stage_shader_components = 1 << 20;
    l.max_vertex_attributes = 1 << 20;
    l.max_vertex_buffers = wgpu_core::MAX_VERTEX_BUFFERS as u32;
    l.max_compute_invocations_per_workgroup = u32::MAX;
    l.max_compute_workgroup_size_x = u32::MAX;
    l.max_compute_workgroup_size_y = u32::MAX;
    l.max_compute_workgroup_size_z = u32::MAX;
    l.max_dynamic_uniform_buffers_per_pipeline_layout = 1 << 20;
    l.max_dynamic_storage_buffers_per_pipeline_layout = 1 << 20;
    l.max_sampled_textures_per_shader_stage = 1 << 20;
    l.max_samplers_per_shader_stage = 1 << 20;
    l.max_storage_buffers_per_shader_stage = 1 << 20;
    l.max_storage_textures_per_shader_stage = 1 << 20;
    l.max_uniform_buffers_per_shader_stage = 1 << 20;
    l.max_push_constant_size = 1 << 20;
    l.max_non_sampler_bindings = u32::MAX;
    l
}

fn stage_name(s: naga::ShaderStage) -> &'static str {
    match s {
        naga::ShaderStage::Vertex => "vertex",
        naga::ShaderStage::Fragment => "fragment",
        naga::ShaderStage::Compute => "compute",
    }
}

fn stage_bit(s: naga::ShaderStage) -> wgt::ShaderStages {
    match s {
        naga::ShaderStage::Vertex => wgt::ShaderStages::VERTEX,
        naga::ShaderStage::Fragment => wgt::ShaderStages::FRAGMENT,
        naga::ShaderStage::Compute => wgt::ShaderStages::COMPUTE,
    }
}

/// The `@location` inputs of an entry point, flattened like `Interface::populate`
/// (validation.rs:856-916) does.
fn location_inputs(
    module: &naga::Module,
    ep: &naga::EntryPoint,
) -> Vec<(u32, naga::Handle<naga::Type>, Option<naga::Interpolation>, Option<naga::Sampling>)> {
    fn walk(
        module: &naga::Module,
        binding: Option<&naga::Binding>,
        ty: naga::Handle<naga::Type>,
        out: &mut Vec<(u32, naga::Handle<naga::Type>, Option<naga::Interpolation>, Option<naga::Sampling>)>,
    ) {
        if let naga::TypeInner::Struct { ref members, .. } = module.types[ty].inner {
            for m in members {
                walk(module, m.binding.as_ref(), m.ty, out);
            }
            return;
        }
        if let Some(&naga::Binding::Location {
            location,
            interpolation,
            sampling,
            ..
        }) = binding
        {
            out.push((location, ty, interpolation, sampling));
        }
    }
    let mut out = Vec::new();
    for arg in &ep.function.arguments {
        walk(module, arg.binding.as_ref(), arg.ty, &mut out);
    }
    out
}

fn wgsl_io_type(module: &naga::Module, ty: naga::Handle<naga::Type>) -> R<String> {
    fn scalar(s: naga::Scalar) -> R<&'static str> {
        match (s.kind, s.width) {
            (naga::ScalarKind::Float, 4) => Ok("f32"),
            (naga::ScalarKind::Sint, 4) => Ok("i32"),
            (naga::ScalarKind::Uint, 4) => Ok("u32"),
            _ => Err(format!("no WGSL inter-stage type for scalar {:?}", s)),
        }
    }
    match module.types[ty].inner {
        naga::TypeInner::Scalar(s) => Ok(scalar(s)?.to_string()),
        naga::TypeInner::Vector { size, scalar: s } => Ok(format!("vec{}<{}>", size as u8, scalar(s)?)),
        ref other => Err(format!("no WGSL inter-stage type for {:?}", other)),
    }
}

/// `InterfaceVar` has private `interpolation` / `sampling` fields and its only public
/// constructor is `vertex_attribute` (both `None`), which a fragment input never matches
/// (validation.rs:1214-1223). So the inputs of a fragment entry point are obtained the way a
/// render pipeline obtains them: as the `StageIo` that the real `check_stage` returns for a
/// vertex stage - here a synthesized vertex shader whose outputs are exactly the fragment
/// entry's `@location` inputs (same location, type, interpolation, sampling).
fn synth_fragment_inputs(module: &naga::Module, ep: &naga::EntryPoint, limits: &wgt::Limits) -> R<(StageIo, String)> {
    let inputs = location_inputs(module, ep);
    let mut src = String::from("struct SynthOut {\n  @builtin(position) synth_pos: vec4<f32>,\n");
    for (i, (loc, ty, interp, sampling)) in inputs.iter().enumerate() {
        let mut attr = format!("@location({})", loc);
        if let Some(ip) = interp {
            let ip = match ip {
                naga::Interpolation::Perspective => "perspective",
                naga::Interpolation::Linear => "linear",
                naga::Interpolation::Flat => "flat",
            };
            match sampling {
                None => attr.push_str(&format!(" @interpolate({})", ip)),
                Some(s) => {
                    let s = match s {
                        naga::Sampling::Center => "center",
                        naga::Sampling::Centroid => "centroid",
                        naga::Sampling::Sample => "sample",
                        naga::Sampling::First => "first",
                        naga::Sampling::Either => "either",
                    };
                    attr.push_str(&format!(" @interpolate({}, {})", ip, s));
                }
            }
        } else if sampling.is_some() {
            return Err("input with sampling but without interpolation".to_string());
        }
        src.push_str(&format!("  {} synth_v{}: {},\n", attr, i, wgsl_io_type(module, *ty)?));
    }
    src.push_str("}\n@vertex fn synth_vs() -> SynthOut { var o: SynthOut; return o; }\n");
    let m = naga::front::wgsl::parse_str(&src).map_err(|e| format!("synthesized vertex shader: {}", e.emit_to_string(&src)))?;
    let info = naga::valid::Validator::new(naga::valid::ValidationFlags::all(), naga::valid::Capabilities::all())
        .validate(&m)
        .map_err(|e| format!("synthesized vertex shader: {}", e.emit_to_string(&src)))?;
    let iface = Interface::new(&m, &info, limits.clone());
    let mut layouts = BindingLayoutSource::new_derived(limits);
    let mut sizes = Default::default();
    let io = iface
        .check_stage(
            &mut layouts,
            &mut sizes,
            "synth_vs",
            wgt::ShaderStages::VERTEX,
            StageIo::default(),
            None,
        )
        .map_err(|e| format!("synthesized vertex shader: check_stage: {:?}", e))?;
    Ok((io, src))
}

fn stage_error_json(e: &StageError) -> Value {
    let mut v = json!({
        "result": "err",
        "error": format!("{:?}", e),
        "display": display_chain(e),
        "kind": "other",
    });
    match e {
        StageError::Binding(rb, be) => {
            v["kind"] = json!("binding");
            v["binding_error"] = json!(format!("{:?}", be));
            v["group"] = json!(rb.group);
            v["binding"] = json!(rb.binding);
        }
        StageError::Filtering {
            texture,
            sampler,
            error,
        } => {
            // a mismatch between two layout entries (texture sample type vs sampler type)
            v["kind"] = json!("filtering");
            v["filtering_error"] = json!(format!("{:?}", error));
            v["group"] = json!(texture.group);
            v["binding"] = json!(texture.binding);
            v["sampler_group"] = json!(sampler.group);
            v["sampler_binding"] = json!(sampler.binding);
        }
        StageError::Input { location, error, .. } => {
            v["kind"] = json!("input");
            v["location"] = json!(location);
            v["input_error"] = json!(format!("{:?}", error));
        }
        _ => {}
    }
    v
}

fn entry_json(g: &Group, e: &wgt::BindGroupLayoutEntry) -> Value {
    json!({
        "group": g.index,
        "bind_group_no": g.bind_group_no.to_string().parse::<u64>().ok(),
        "descriptor_no": g.descriptor_no.to_string().parse::<u64>().ok(),
        "binding": e.binding,
        "visibility": e.visibility.bits(),
        "ty": format!("{:?}", e.ty),
        "count": e.count.map(|c| c.get()),
    })
}

fn bgl_json(g: &Group, e: &wgt::BindGroupLayoutEntry) -> Value {
    let run = |features: wgt::Features| -> (Value, Option<String>) {
        match catch_unwind(AssertUnwindSafe(|| check_bgl_entry(e, features, wgt::DownlevelFlags::all()))) {
            Ok(Ok(())) => (json!("ok"), None),
            Ok(Err(err)) => (json!(format!("{:?}", err)), Some(display_chain(&err))),
            Err(p) => (json!(format!("panic: {}", crate::panic_message(p))), None),
        }
    };
    let (all, all_d) = run(wgt::Features::all());
    let (ads, ads_d) = run(wgt::Features::TEXTURE_ADAPTER_SPECIFIC_FORMAT_FEATURES);
    let (none, none_d) = run(wgt::Features::empty());
    let mut v = json!({
        "group": g.index,
        "binding": e.binding,
        "bgl_all_features": all,
        "bgl_adapter_specific": ads,
        "bgl_no_features": none,
        "display": {"bgl_all_features": all_d, "bgl_adapter_specific": ads_d, "bgl_no_features": none_d},
    });
    let fmt = |features: wgt::Features| match check_storage_format(&e.ty, features) {
        None => Value::Null,
        Some(Ok(())) => json!("ok"),
        Some(Err(s)) => json!(s),
    };
    if matches!(e.ty, wgt::BindingType::StorageTexture { .. }) {
        // Features::all() minus the flag that switches the device to adapter-specific tables
        v["fmt_guaranteed_all_features"] =
            fmt(wgt::Features::all() - wgt::Features::TEXTURE_ADAPTER_SPECIFIC_FORMAT_FEATURES);
        v["fmt_guaranteed_no_features"] = fmt(wgt::Features::empty());
    }
    v
}

/// The oracle for one generated text.
fn validate(module: &naga::Module, info: &naga::valid::ModuleInfo, ex: &Extracted, res: &mut Value) {
    let limits = generous_limits();

    // --- 7. the evaluated entries, 6. the create_bind_group_layout checks ---------------------
    let mut entries = Vec::new();
    let mut bgl = Vec::new();
    let mut bgl_groups = Vec::new();
    for g in &ex.groups {
        for e in &g.entries {
            entries.push(entry_json(g, e));
            bgl.push(bgl_json(g, e));
        }
        let grp = |l: &wgt::Limits| match check_bgl_group(&g.entries, l) {
            Ok(()) => json!("ok"),
            Err(e) => json!(format!("{:?}", e)),
        };
        bgl_groups.push(json!({
            "group": g.index,
            "bind_group_no": g.bind_group_no.to_string().parse::<u64>().ok(),
            "n_entries": g.entries.len(),
            "from_entries_default_limits": grp(&wgt::Limits::default()),
            "from_entries_generous_limits": grp(&limits),
        }));
    }
    res["n_groups"] = json!(ex.groups.len());
    // Device::create_pipeline_layout, resource.rs:2594-2601, with the default and the hal maximum
    let too_many = |max: usize| {
        if ex.groups.len() > max {
            json!(format!(
                "{:?}",
                wgpu_core::binding_model::CreatePipelineLayoutError::TooManyGroups {
                    actual: ex.groups.len(),
                    max,
                }
            ))
        } else {
            json!("ok")
        }
    };
    res["pipeline_layout_groups_default_limits"] = too_many(wgt::Limits::default().max_bind_groups as usize);
    res["pipeline_layout_groups_max_limits"] = too_many(wgpu_core::MAX_BIND_GROUPS);
    res["entries"] = Value::Array(entries);
    res["bgl"] = Value::Array(bgl);
    res["bgl_groups"] = Value::Array(bgl_groups);

    // --- 7. vertex helpers ---------------------------------------------------------------------
    let vstruct = |name: &str| ex.vstructs.iter().find(|s| s.name == name);
    let buffers_json = |ve: &VEntry| -> Value {
        Value::Array(
            ve.buffers
                .iter()
                .map(|b| match vstruct(b) {
                    Some(s) => json!({
                        "struct": b,
                        "attributes": s.attributes.iter()
                            .map(|(f, l)| json!({"format": format!("{:?}", f), "location": l}))
                            .collect::<Vec<_>>(),
                        "declared_len": s.declared_len.to_string().parse::<u64>().ok(),
                    }),
                    None => json!({"struct": b, "attributes": null}),
                })
                .collect(),
        )
    };
    res["vertex"] = Value::Array(
        ex.ventries
            .iter()
            .map(|ve| {
                json!({
                    "fn": ve.fn_name,
                    "entry_const": ve.entry_const,
                    "entry_point": ve.entry_point,
                    "declared_len": ve.declared_len.to_string().parse::<u64>().ok(),
                    "buffers": buffers_json(ve),
                })
            })
            .collect(),
    );
    res["vertex_structs"] = Value::Array(
        ex.vstructs
            .iter()
            .map(|s| {
                json!({
                    "struct": s.name,
                    "attributes": s.attributes.iter()
                        .map(|(f, l)| json!({"format": format!("{:?}", f), "location": l}))
                        .collect::<Vec<_>>(),
                })
            })
            .collect(),
    );

    // --- 4. Interface + BindingLayoutSource::Provided -------------------------------------------
    if ex.groups.len() > wgpu_core::MAX_BIND_GROUPS {
        res["stage_skipped"] = json!(format!(
            "{} bind groups exceed wgpu_core::MAX_BIND_GROUPS = {} (capacity of BindingLayoutSource)",
            ex.groups.len(),
            wgpu_core::MAX_BIND_GROUPS
        ));
        return;
    }
    let interface = match catch_unwind(AssertUnwindSafe(|| Interface::new(module, info, limits.clone()))) {
        Ok(i) => i,
        Err(p) => {
            res["stage_skipped"] = json!(format!("Interface::new panicked: {}", crate::panic_message(p)));
            return;
        }
    };
    // `bgl::EntryMap` cannot be named (`pub(crate) mod bgl`), but `new_derived` hands out an
    // `ArrayVec` of `max_bind_groups` empty maps (validation.rs:844-851) whose public `entry()`
    // (bgl.rs:129-132) lets us fill in the generator's entries; references to the first
    // `n_groups` maps then form the `Provided` source exactly like
    // `PipelineLayout::get_binding_maps` does for a real pipeline layout (resource.rs:2766-2769).
    let mut derived = BindingLayoutSource::new_derived(&limits);
    let maps = match derived {
        BindingLayoutSource::Derived(ref mut arr) => arr,
        BindingLayoutSource::Provided(_) => unreachable!("new_derived returns Derived"),
    };
    for g in &ex.groups {
        for e in &g.entries {
            // a duplicate binding keeps the first entry; reported by bgl_groups (ConflictBinding)
            maps[g.index].entry(e.binding).or_insert(*e);
        }
        maps[g.index].sort();
    }
    let mut provided = BindingLayoutSource::Provided(maps.iter().take(ex.groups.len()).collect());

    // --- 5. check_stage for every entry point ---------------------------------------------------
    let mut eps = Vec::new();
    let mut all_sizes: Vec<Value> = Vec::new();
    for ep in &module.entry_points {
        let mut j = json!({"name": ep.name, "stage": stage_name(ep.stage)});
        let mut inputs = StageIo::default();
        match ep.stage {
            naga::ShaderStage::Compute => {}
            naga::ShaderStage::Fragment => {
                match catch_unwind(AssertUnwindSafe(|| synth_fragment_inputs(module, ep, &limits))) {
                    Ok(Ok((io, _src))) => {
                        let mut locs: Vec<u32> = io.keys().copied().collect();
                        locs.sort();
                        j["inputs_from"] = json!("synth_vertex");
                        j["input_locations"] = json!(locs);
                        inputs = io;
                    }
                    Ok(Err(e)) => {
                        j["inputs_from"] = json!("empty");
                        j["inputs_note"] = json!(e);
                    }
                    Err(p) => {
                        j["inputs_from"] = json!("empty");
                        j["inputs_note"] = json!(format!("panic: {}", crate::panic_message(p)));
                    }
                }
            }
            naga::ShaderStage::Vertex => {
                // mirrors create_render_pipeline, resource.rs:2921-3017: every attribute of every
                // buffer goes into `io` keyed by shader_location; a clash is an error there.
                match ex.ventries.iter().find(|v| v.entry_point == ep.name) {
                    None => {
                        j["inputs_from"] = json!("empty");
                        j["inputs_note"] = json!(format!("no `*_entry` helper with entry point `{}`", ep.name));
                    }
                    Some(ve) => {
                        j["inputs_from"] = json!(ve.fn_name);
                        j["buffers"] = buffers_json(ve);
                        let mut layout_errors = Vec::new();
                        let mut n_buffers = 0usize;
                        let mut total = 0usize;
                        for b in &ve.buffers {
                            let Some(s) = vstruct(b) else {
                                layout_errors.push(format!("buffer struct `{}` has no VERTEX_ATTRIBUTES impl", b));
                                continue;
                            };
                            if s.attributes.is_empty() {
                                continue; // resource.rs:2978-2980
                            }
                            n_buffers += 1;
                            for (fmt, loc) in &s.attributes {
                                // resource.rs:2963-2970 (default limit; not raised on purpose)
                                if *loc >= wgt::Limits::default().max_vertex_attributes {
                                    layout_errors.push(format!(
                                        "TooManyVertexAttributes {{ given: {}, limit: {} }}",
                                        loc,
                                        wgt::Limits::default().max_vertex_attributes
                                    ));
                                }
                                // resource.rs:3005-3015
                                if inputs.insert(*loc, InterfaceVar::vertex_attribute(*fmt)).is_some() {
                                    layout_errors.push(format!("ShaderLocationClash({})", loc));
                                }
                            }
                            total += s.attributes.len();
                        }
                        // resource.rs:3019-3032 (default limits)
                        let d = wgt::Limits::default();
                        if n_buffers > d.max_vertex_buffers as usize {
                            layout_errors.push(format!(
                                "TooManyVertexBuffers {{ given: {}, limit: {} }}",
                                n_buffers, d.max_vertex_buffers
                            ));
                        }
                        if total > d.max_vertex_attributes as usize {
                            layout_errors.push(format!(
                                "TooManyVertexAttributes {{ given: {}, limit: {} }}",
                                total, d.max_vertex_attributes
                            ));
                        }
                        j["vertex_layout_errors"] = json!(layout_errors);
                    }
                }
            }
        }
        let mut sizes = Default::default();
        let r = catch_unwind(AssertUnwindSafe(|| {
            interface.check_stage(&mut provided, &mut sizes, &ep.name, stage_bit(ep.stage), inputs, None)
        }));
        match r {
            Ok(Ok(outputs)) => {
                j["result"] = json!("ok");
                let mut locs: Vec<u32> = outputs.keys().copied().collect();
                locs.sort();
                j["output_locations"] = json!(locs);
            }
            Ok(Err(e)) => {
                let ej = stage_error_json(&e);
                for (k, v) in ej.as_object().unwrap() {
                    j[k.as_str()] = v.clone();
                }
            }
            Err(p) => {
                j["result"] = json!("panic");
                j["panic_msg"] = json!(crate::panic_message(p));
            }
        }
        let mut sz: Vec<(u32, u32, u64)> = sizes.iter().map(|(rb, s)| (rb.group, rb.binding, s.get())).collect();
        sz.sort();
        for (g, b, s) in sz {
            all_sizes.push(json!({"entry": ep.name, "group": g, "binding": b, "size": s}));
        }
        eps.push(j);
    }
    res["entry_points"] = Value::Array(eps);
    res["shader_binding_sizes"] = Value::Array(all_sizes);
}

fn run_case(case: &Value) -> Value {
    let id = case.get("id").cloned().unwrap_or(Value::Null);
    let mut res = json!({"id": id, "skipped": null});
    let skip = |mut res: Value, why: String| {
        res["skipped"] = json!(why);
        res
    };
    let wgsl = match case.get("wgsl").and_then(Value::as_str) {
        Some(w) => w,
        None => return skip(res, "driver: case has no string field `wgsl`".to_string()),
    };
    let mut options = match crate::write_options(case.get("opts").unwrap_or(&Value::Null)) {
        Ok(o) => o,
        Err(e) => return skip(res, format!("driver: {}", e)),
    };
    options.rustfmt = false;

    // 1. naga
    let module = match catch_unwind(AssertUnwindSafe(|| naga::front::wgsl::parse_str(wgsl))) {
        Ok(Ok(m)) => m,
        Ok(Err(e)) => {
            res["parse_err"] = json!(e.emit_to_string(wgsl));
            return skip(res, "parse error".to_string());
        }
        Err(p) => {
            res["parse_err"] = json!(format!("parser panicked: {}", crate::panic_message(p)));
            return skip(res, "parse error".to_string());
        }
    };
    let info = match catch_unwind(AssertUnwindSafe(|| {
        naga::valid::Validator::new(naga::valid::ValidationFlags::all(), naga::valid::Capabilities::all())
            .validate(&module)
    })) {
        Ok(Ok(i)) => i,
        Ok(Err(e)) => return skip(res, format!("validation error: {}", e.emit_to_string(wgsl))),
        Err(p) => return skip(res, format!("validation error: validator panicked: {}", crate::panic_message(p))),
    };

    // 2. the generator
    let text = match catch_unwind(AssertUnwindSafe(|| wgsl_to_wgpu::create_shader_module_embedded(wgsl, options))) {
        Ok(Ok(t)) => t,
        Ok(Err(e)) => return skip(res, format!("generator err/panic: {}", e)),
        Err(p) => return skip(res, format!("generator err/panic: panic: {}", crate::panic_message(p))),
    };
    if case.get("want_text").and_then(Value::as_bool).unwrap_or(false) {
        res["text"] = json!(text);
    }

    oracle_on_text(&module, &info, &text, res)
}

/// Steps 3-7 for a given generated text (separate so that tests can feed mutated texts).
fn oracle_on_text(module: &naga::Module, info: &naga::valid::ModuleInfo, text: &str, mut res: Value) -> Value {
    // 3. evaluate the generated text
    let ex = match catch_unwind(AssertUnwindSafe(|| extract(text))) {
        Ok(Ok(ex)) => ex,
        Ok(Err(e)) => {
            res["skipped"] = json!(format!("cannot evaluate: {}", e));
            return res;
        }
        Err(p) => {
            res["skipped"] = json!(format!("cannot evaluate: extractor panicked: {}", crate::panic_message(p)));
            return res;
        }
    };
    // 4.-7.
    validate(module, info, &ex, &mut res);
    res
}

pub fn wgpu(cases_path: &str, results_path: &str) -> Result<(), String> {
    let input = std::fs::File::open(cases_path).map_err(|e| format!("{}: {}", cases_path, e))?;
    let mut lines: Vec<String> = Vec::new();
    for l in std::io::BufReader::new(input).lines() {
        let l = l.map_err(|e| format!("{}: {}", cases_path, e))?;
        if !l.trim().is_empty() {
            lines.push(l);
        }
    }
    let total = lines.len();
    let results: Mutex<Vec<Option<String>>> = Mutex::new(vec![None; total]);
    let next = AtomicUsize::new(0);
    const CHUNK: usize = 4;
    let threads = std::thread::available_parallelism()
        .map(|n| n.get())
        .unwrap_or(4)
        .min(total.div_ceil(CHUNK).max(1));

    std::thread::scope(|scope| {
        for t in 0..threads {
            let lines = &lines;
            let results = &results;
            let next = &next;
            std::thread::Builder::new()
                .name(format!("worker{}", t))
                .stack_size(512 << 20)
                .spawn_scoped(scope, move || loop {
                    let start = next.fetch_add(CHUNK, Ordering::SeqCst);
                    if start >= total {
                        break;
                    }
                    for i in start..(start + CHUNK).min(total) {
                        let out = match serde_json::from_str::<Value>(&lines[i]) {
                            Ok(case) => catch_unwind(AssertUnwindSafe(|| run_case(&case))).unwrap_or_else(|p| {
                                json!({"id": case.get("id").cloned().unwrap_or(Value::Null),
                                       "driver_panic": crate::panic_message(p)})
                            }),
                            Err(e) => json!({"id": null, "driver_error": format!("bad case line {}: {}", i + 1, e)}),
                        };
                        let line = serde_json::to_string(&out).expect("serialize");
                        results.lock().unwrap()[i] = Some(line);
                    }
                })
                .expect("spawn worker");
        }
    });

    let output = std::fs::File::create(results_path).map_err(|e| format!("{}: {}", results_path, e))?;
    let mut w = BufWriter::new(output);
    for r in results.into_inner().unwrap() {
        let line = r.ok_or_else(|| "internal: missing result".to_string())?;
        w.write_all(line.as_bytes()).map_err(|e| e.to_string())?;
        w.write_all(b"\n").map_err(|e| e.to_string())?;
    }
    w.flush().map_err(|e| e.to_string())
}

#[cfg(test)]
mod tests {
    use super::*;

    fn expr(s: &str) -> syn::Expr {
        syn::parse_str(s).unwrap()
    }

    #[test]
    fn stage_expressions() {
        let v = wgt::ShaderStages::VERTEX;
        let f = wgt::ShaderStages::FRAGMENT;
        let c = wgt::ShaderStages::COMPUTE;
        assert_eq!(eval_stages(&expr("wgpu::ShaderStages::NONE")).unwrap(), wgt::ShaderStages::NONE);
        assert_eq!(eval_stages(&expr("wgpu::ShaderStages::all()")).unwrap(), v | f | c);
        assert_eq!(eval_stages(&expr("wgpu::ShaderStages::VERTEX_FRAGMENT")).unwrap(), v | f);
        assert_eq!(
            eval_stages(&expr("wgpu::ShaderStages::VERTEX.union(wgpu::ShaderStages::COMPUTE)")).unwrap(),
            v | c
        );
        assert_eq!(
            eval_stages(&expr("wgpu::ShaderStages::NONE.union(wgpu::ShaderStages::FRAGMENT).union(wgpu::ShaderStages::COMPUTE)"))
                .unwrap(),
            f | c
        );
        assert_eq!(eval_stages(&expr("(wgpu::ShaderStages::VERTEX | wgpu::ShaderStages::FRAGMENT)")).unwrap(), v | f);
        assert!(eval_stages(&expr("wgpu::ShaderStages::TASK")).is_err());
        assert!(eval_stages(&expr("ShaderStages::VERTEX")).is_err());
        assert!(eval_stages(&expr("wgpu::ShaderStages::from_bits_truncate(3)")).is_err());
        assert!(eval_stages(&expr("wgpu::ShaderStages::VERTEX.intersection(wgpu::ShaderStages::VERTEX)")).is_err());
    }

    #[test]
    fn binding_types() {
        assert_eq!(
            eval_binding_type(&expr(
                "wgpu::BindingType::Buffer { ty: wgpu::BufferBindingType::Storage { read_only: true }, has_dynamic_offset: false, min_binding_size: None }"
            ))
            .unwrap(),
            wgt::BindingType::Buffer {
                ty: wgt::BufferBindingType::Storage { read_only: true },
                has_dynamic_offset: false,
                min_binding_size: None
            }
        );
        assert_eq!(
            eval_binding_type(&expr(
                "wgpu::BindingType::Buffer { min_binding_size: Some(std::num::NonZeroU64::new(16).unwrap()), ty: wgpu::BufferBindingType::Uniform, has_dynamic_offset: true }"
            ))
            .unwrap(),
            wgt::BindingType::Buffer {
                ty: wgt::BufferBindingType::Uniform,
                has_dynamic_offset: true,
                min_binding_size: wgt::BufferSize::new(16)
            }
        );
        assert_eq!(
            eval_binding_type(&expr(
                "wgpu::BindingType::Texture { sample_type: wgpu::TextureSampleType::Float { filterable: false }, view_dimension: wgpu::TextureViewDimension::CubeArray, multisampled: false }"
            ))
            .unwrap(),
            wgt::BindingType::Texture {
                sample_type: wgt::TextureSampleType::Float { filterable: false },
                view_dimension: wgt::TextureViewDimension::CubeArray,
                multisampled: false
            }
        );
        assert_eq!(
            eval_binding_type(&expr(
                "wgpu::BindingType::StorageTexture { access: wgpu::StorageTextureAccess::Atomic, format: wgpu::TextureFormat::R64Uint, view_dimension: wgpu::TextureViewDimension::D3 }"
            ))
            .unwrap(),
            wgt::BindingType::StorageTexture {
                access: wgt::StorageTextureAccess::Atomic,
                format: wgt::TextureFormat::R64Uint,
                view_dimension: wgt::TextureViewDimension::D3
            }
        );
        assert_eq!(
            eval_binding_type(&expr("wgpu::BindingType::Sampler(wgpu::SamplerBindingType::Comparison)")).unwrap(),
            wgt::BindingType::Sampler(wgt::SamplerBindingType::Comparison)
        );
        // not evaluable: unknown variant, missing field, extra field, `..`, non-literal bool
        for bad in [
            "wgpu::BindingType::Sampler(wgpu::SamplerBindingType::Fancy)",
            "wgpu::BindingType::Texture { sample_type: wgpu::TextureSampleType::Sint, multisampled: false }",
            "wgpu::BindingType::Texture { sample_type: wgpu::TextureSampleType::Sint, view_dimension: wgpu::TextureViewDimension::D2, multisampled: false, x: 1 }",
            "wgpu::BindingType::Texture { sample_type: wgpu::TextureSampleType::Sint, view_dimension: wgpu::TextureViewDimension::D2, ..Default::default() }",
            "wgpu::BindingType::Texture { sample_type: wgpu::TextureSampleType::Sint, view_dimension: wgpu::TextureViewDimension::D2, multisampled: !true }",
            "wgpu::BindingType::StorageTexture { access: wgpu::StorageTextureAccess::ReadOnly, format: wgpu::TextureFormat::Rgba8, view_dimension: wgpu::TextureViewDimension::D2 }",
            "BindingType::Sampler(wgpu::SamplerBindingType::Filtering)",
        ] {
            assert!(eval_binding_type(&expr(bad)).is_err(), "{}", bad);
        }
    }

    #[test]
    fn format_tables_are_complete_and_named() {
        // discriminants 0..=44 in order, i.e. no variant is missing from the table
        for (i, f) in VERTEX_FORMATS.iter().enumerate() {
            assert_eq!(*f as u32, i as u32);
        }
        // every naga storage format maps to a format of the table
        for f in TEXTURE_FORMATS {
            if let Some(n) = wgpu_core::map_storage_format_to_naga(f) {
                assert_eq!(wgpu_core::map_storage_format_from_naga(n), f);
            }
        }
        assert_eq!(
            TEXTURE_FORMATS.iter().filter(|f| wgpu_core::map_storage_format_to_naga(**f).is_some()).count(),
            41
        );
    }

    fn entry(visibility: wgt::ShaderStages, ty: wgt::BindingType) -> wgt::BindGroupLayoutEntry {
        wgt::BindGroupLayoutEntry {
            binding: 7,
            visibility,
            ty,
            count: None,
        }
    }

    #[test]
    fn bgl_entry_rules() {
        let all = wgt::Features::all();
        let none = wgt::Features::empty();
        let dl = wgt::DownlevelFlags::all();
        let tex = |sample_type, view_dimension, multisampled| wgt::BindingType::Texture {
            sample_type,
            view_dimension,
            multisampled,
        };
        let float = |filterable| wgt::TextureSampleType::Float { filterable };
        let d2 = wgt::TextureViewDimension::D2;
        let f = wgt::ShaderStages::FRAGMENT;
        let dbg = |r: Result<(), CreateBindGroupLayoutError>| r.map_err(|e| format!("{:?}", e));

        assert_eq!(
            dbg(check_bgl_entry(&entry(f, tex(float(true), d2, true)), all, dl)),
            Err("Entry { binding: 7, error: SampleTypeFloatFilterableBindingMultisampled }".into())
        );
        assert_eq!(dbg(check_bgl_entry(&entry(f, tex(float(false), d2, true)), none, dl)), Ok(()));
        assert_eq!(dbg(check_bgl_entry(&entry(f, tex(wgt::TextureSampleType::Sint, d2, true)), none, dl)), Ok(()));
        assert_eq!(
            dbg(check_bgl_entry(
                &entry(f, tex(wgt::TextureSampleType::Depth, wgt::TextureViewDimension::D2Array, true)),
                all,
                dl
            )),
            Err("Entry { binding: 7, error: Non2DMultisampled(D2Array) }".into())
        );
        let st = |access, view_dimension| wgt::BindingType::StorageTexture {
            access,
            format: wgt::TextureFormat::R32Uint,
            view_dimension,
        };
        assert_eq!(
            dbg(check_bgl_entry(&entry(f, st(wgt::StorageTextureAccess::WriteOnly, wgt::TextureViewDimension::Cube)), all, dl)),
            Err("Entry { binding: 7, error: StorageTextureCube }".into())
        );
        assert_eq!(dbg(check_bgl_entry(&entry(f, st(wgt::StorageTextureAccess::WriteOnly, d2)), none, dl)), Ok(()));
        assert_eq!(
            dbg(check_bgl_entry(&entry(f, st(wgt::StorageTextureAccess::ReadOnly, d2)), none, dl)),
            Err("Entry { binding: 7, error: StorageTextureReadWrite }".into())
        );
        assert_eq!(
            dbg(check_bgl_entry(
                &entry(f, st(wgt::StorageTextureAccess::ReadWrite, d2)),
                wgt::Features::TEXTURE_ADAPTER_SPECIFIC_FORMAT_FEATURES,
                dl
            )),
            Ok(())
        );
        assert_eq!(
            dbg(check_bgl_entry(
                &entry(f, st(wgt::StorageTextureAccess::Atomic, d2)),
                wgt::Features::TEXTURE_ADAPTER_SPECIFIC_FORMAT_FEATURES,
                dl
            )),
            Err("Entry { binding: 7, error: StorageTextureAtomic }".into())
        );
        assert_eq!(dbg(check_bgl_entry(&entry(f, st(wgt::StorageTextureAccess::Atomic, d2)), wgt::Features::TEXTURE_ATOMIC, dl)), Ok(()));
        // writable storage in the vertex stage
        let rw = wgt::BindingType::Buffer {
            ty: wgt::BufferBindingType::Storage { read_only: false },
            has_dynamic_offset: false,
            min_binding_size: None,
        };
        assert_eq!(
            dbg(check_bgl_entry(&entry(wgt::ShaderStages::VERTEX_FRAGMENT, rw), none, dl)),
            Err("Entry { binding: 7, error: MissingFeatures(MissingFeatures(Features(VERTEX_WRITABLE_STORAGE))) }".into())
        );
        assert_eq!(dbg(check_bgl_entry(&entry(wgt::ShaderStages::VERTEX_FRAGMENT, rw), all, dl)), Ok(()));
        assert_eq!(
            dbg(check_bgl_entry(&entry(wgt::ShaderStages::VERTEX, rw), all, wgt::DownlevelFlags::empty())),
            Err("Entry { binding: 7, error: MissingDownlevelFlags(MissingDownlevelFlags(DownlevelFlags(VERTEX_STORAGE))) }".into())
        );
        assert_eq!(
            dbg(check_bgl_entry(&entry(f, rw), all, wgt::DownlevelFlags::empty())),
            Err("Entry { binding: 7, error: MissingDownlevelFlags(MissingDownlevelFlags(DownlevelFlags(FRAGMENT_WRITABLE_STORAGE))) }".into())
        );
        // count
        let mut e = entry(f, wgt::BindingType::AccelerationStructure);
        e.count = std::num::NonZeroU32::new(2);
        assert_eq!(dbg(check_bgl_entry(&e, all, dl)), Err("Entry { binding: 7, error: ArrayUnsupported }".into()));
        let mut e = entry(f, wgt::BindingType::Sampler(wgt::SamplerBindingType::Filtering));
        e.count = std::num::NonZeroU32::new(2);
        assert_eq!(
            dbg(check_bgl_entry(&e, none, dl)),
            Err("Entry { binding: 7, error: MissingFeatures(MissingFeatures(Features(TEXTURE_BINDING_ARRAY))) }".into())
        );
        // visibility bits outside ShaderStages::all()
        let e = entry(wgt::ShaderStages::from_bits_retain(8), rw);
        assert!(matches!(check_bgl_entry(&e, all, dl), Err(CreateBindGroupLayoutError::InvalidVisibility(_))));
        // group level
        let a = entry(f, rw);
        assert_eq!(
            dbg(check_bgl_group(&[a, a], &wgt::Limits::default())),
            Err("ConflictBinding(7)".into())
        );
    }

    /// The oracle on the generator's text and on mutated texts: the real `check_stage` has to
    /// notice every mutation of a layout entry that matters.
    #[test]
    fn oracle_detects_mutations() {
        let wgsl = "
            struct VIn { @location(0) p: vec3<f32>, @location(1) k: vec2<u32> }
            @group(0) @binding(0) var<uniform> u: vec4<f32>;
            @group(0) @binding(1) var at: texture_storage_2d<r32uint, atomic>;
            @group(1) @binding(0) var t: texture_2d<f32>;
            @group(1) @binding(1) var s: sampler;
            @group(1) @binding(2) var<storage, read_write> b: array<u32>;
            @vertex fn vs(v: VIn) -> @builtin(position) vec4<f32> { return u + vec4<f32>(v.p, f32(v.k.x)); }
            @fragment fn fs(@location(0) uv: vec2<f32>) -> @location(0) vec4<f32> { return textureSample(t, s, uv) * u; }
            @compute @workgroup_size(1) fn cs() { textureAtomicAdd(at, vec2<i32>(0, 0), 1u); b[0] = 1u; }";
        let module = naga::front::wgsl::parse_str(wgsl).unwrap();
        let info = naga::valid::Validator::new(naga::valid::ValidationFlags::all(), naga::valid::Capabilities::all())
            .validate(&module)
            .unwrap();
        let text = wgsl_to_wgpu::create_shader_module_embedded(wgsl, wgsl_to_wgpu::WriteOptions::default()).unwrap();
        let run = |text: &str| oracle_on_text(&module, &info, text, json!({"id": 0, "skipped": null}));
        let ep = |r: &Value, name: &str| -> Value {
            r["entry_points"].as_array().unwrap().iter().find(|e| e["name"] == name).unwrap().clone()
        };
        let mutate = |from: &str, to: &str| {
            assert!(text.contains(from), "generated text has no `{}`", from);
            text.replacen(from, to, 1)
        };

        let r = run(&text);
        assert_eq!(r["skipped"], Value::Null, "{}", r);
        for e in r["entry_points"].as_array().unwrap() {
            assert_eq!(e["result"], "ok", "{}", e);
        }
        assert_eq!(r["entries"].as_array().unwrap().len(), 5);

        // uniform -> storage
        let r = run(&mutate(
            "ty: wgpu::BufferBindingType::Uniform",
            "ty: wgpu::BufferBindingType::Storage { read_only: true }",
        ));
        assert_eq!(ep(&r, "vs")["kind"], "binding");
        assert!(ep(&r, "vs")["binding_error"].as_str().unwrap().starts_with("WrongAddressSpace"));
        // atomic -> read-write storage texture
        let r = run(&mutate("wgpu::StorageTextureAccess::Atomic", "wgpu::StorageTextureAccess::ReadWrite"));
        assert!(ep(&r, "cs")["binding_error"].as_str().unwrap().starts_with("WrongTextureClass"));
        assert_eq!((ep(&r, "cs")["group"].as_u64(), ep(&r, "cs")["binding"].as_u64()), (Some(0), Some(1)));
        // view dimension
        let r = run(&mutate(
            "filterable: true,\n                    },\n                    view_dimension: wgpu::TextureViewDimension::D2",
            "filterable: true,\n                    },\n                    view_dimension: wgpu::TextureViewDimension::D3",
        ));
        assert!(ep(&r, "fs")["binding_error"].as_str().unwrap().starts_with("WrongTextureViewDimension"), "{}", ep(&r, "fs"));
        // non-filterable float with the (always filtering) sampler
        let r = run(&mutate("filterable: true", "filterable: false"));
        assert_eq!(ep(&r, "fs")["kind"], "filtering");
        assert_eq!(ep(&r, "fs")["filtering_error"], "Float");
        // comparison sampler
        let r = run(&mutate("wgpu::SamplerBindingType::Filtering", "wgpu::SamplerBindingType::Comparison"));
        assert_eq!(ep(&r, "fs")["binding_error"], "WrongSamplerComparison");
        // min_binding_size too small / large enough
        let r = run(&mutate("min_binding_size: None", "min_binding_size: Some(std::num::NonZeroU64::new(8).unwrap())"));
        assert!(ep(&r, "vs")["binding_error"].as_str().unwrap().starts_with("WrongBufferSize"));
        let r = run(&mutate("min_binding_size: None", "min_binding_size: wgpu::BufferSize::new(16)"));
        assert_eq!(ep(&r, "vs")["result"], "ok");
        // visibility
        let r = run(&mutate(
            "visibility: wgpu::ShaderStages::VERTEX_FRAGMENT",
            "visibility: wgpu::ShaderStages::NONE.union(wgpu::ShaderStages::VERTEX)",
        ));
        assert_eq!(ep(&r, "fs")["binding_error"], "Invisible", "{}", r);
        // vertex format of the wrong scalar kind / a missing attribute
        let r = run(&mutate("wgpu::VertexFormat::Uint32x2", "wgpu::VertexFormat::Float32x2"));
        assert_eq!(ep(&r, "vs")["kind"], "input");
        assert!(ep(&r, "vs")["input_error"].as_str().unwrap().starts_with("WrongType"));
        let r = run(&mutate("shader_location: 1", "shader_location: 5"));
        assert_eq!(ep(&r, "vs")["input_error"], "Missing");
        let r = run(&mutate("shader_location: 1", "shader_location: 0"));
        assert_eq!(ep(&r, "vs")["vertex_layout_errors"], json!(["ShaderLocationClash(0)"]));
        // not evaluable
        let r = run(&mutate("visibility: wgpu::ShaderStages::COMPUTE", "visibility: STAGES"));
        assert!(r["skipped"].as_str().unwrap().starts_with("cannot evaluate: "), "{}", r);
    }
}
