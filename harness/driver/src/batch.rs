//! `driver batch <cases.jsonl> <outdir> [--real] [--shim]` - see /verif/harness/BATCH_SPEC.md.
//!
//! Puts the texts the generator returns for the cases into scratch cargo crates
//! (`<outdir>/crate-real`, `<outdir>/crate-shim`), type-checks them against the real crates
//! (`check.jsonl`) and / or builds and runs them with probe code against the recording `wgpu`
//! shim (`obs.jsonl`).

use crate::probe;
use serde_json::{json, Value};
use std::collections::{BTreeMap, BTreeSet, HashMap};
use std::io::{BufRead, Write};
use std::panic::{catch_unwind, AssertUnwindSafe};
use std::path::{Component, Path, PathBuf};
use std::process::Command;
use std::sync::atomic::{AtomicUsize, Ordering};
use std::sync::Mutex;
use std::time::Instant;

const TARGET_REAL: &str = "/verif/.cache/target-batch";
const TARGET_SHIM: &str = "/verif/.cache/target-shim";
const SHIM_WGPU: &str = "/verif/harness/shim-wgpu";
const STUB_NALGEBRA: &str = "/verif/harness/stub-nalgebra";
const SEED_LOCK: &str = "/repo/Cargo.lock";
const DEFAULT_ROUNDS: usize = 3;

// ---------------------------------------------------------------------------------------------
// generation
// ---------------------------------------------------------------------------------------------

struct Case {
    /// position in the cases file = number of the module (`m<index>`)
    index: usize,
    case: Value,
    /// result object of `gen` (text always present when the generator succeeded)
    gen: Value,
    text: Option<String>,
}

impl Case {
    fn id(&self) -> Value {
        self.case.get("id").cloned().unwrap_or(Value::Null)
    }
    fn result(&self) -> Value {
        self.gen.get("result").cloned().unwrap_or(Value::Null)
    }
    fn include(&self) -> Option<&str> {
        self.case.get("include").and_then(Value::as_str)
    }
    fn wgsl(&self) -> &str {
        self.case.get("wgsl").and_then(Value::as_str).unwrap_or("")
    }
}

fn read_lines(path: &str) -> Result<Vec<String>, String> {
    let input = std::fs::File::open(path).map_err(|e| format!("{}: {}", path, e))?;
    let mut lines = Vec::new();
    for l in std::io::BufReader::new(input).lines() {
        let l = l.map_err(|e| format!("{}: {}", path, e))?;
        if !l.trim().is_empty() {
            lines.push(l);
        }
    }
    Ok(lines)
}

/// Runs the generator on every case line (in parallel, order preserved), exactly like `gen`
/// but always keeping the returned text.
fn generate(lines: &[String]) -> Vec<Case> {
    let total = lines.len();
    let slots: Mutex<Vec<Option<Case>>> = Mutex::new((0..total).map(|_| None).collect());
    let next = AtomicUsize::new(0);
    const CHUNK: usize = 4;
    let threads = std::thread::available_parallelism()
        .map(|n| n.get())
        .unwrap_or(4)
        .min(total.div_ceil(CHUNK).max(1));
    std::thread::scope(|scope| {
        for t in 0..threads {
            let slots = &slots;
            let next = &next;
            std::thread::Builder::new()
                .name(format!("batch-worker{}", t))
                .stack_size(512 << 20)
                .spawn_scoped(scope, move || loop {
                    let start = next.fetch_add(CHUNK, Ordering::SeqCst);
                    if start >= total {
                        break;
                    }
                    for i in start..(start + CHUNK).min(total) {
                        let c = match serde_json::from_str::<Value>(&lines[i]) {
                            Ok(case) => {
                                let wanted_text = case.get("want_text").and_then(Value::as_bool).unwrap_or(false);
                                let mut with_text = case.clone();
                                if let Some(o) = with_text.as_object_mut() {
                                    o.insert("want_text".into(), json!(true));
                                }
                                let mut gen = catch_unwind(AssertUnwindSafe(|| crate::run_case(&with_text)))
                                    .unwrap_or_else(|p| {
                                        json!({"id": case.get("id").cloned().unwrap_or(Value::Null),
                                               "driver_panic": crate::panic_message(p)})
                                    });
                                let text = gen.get("text").and_then(Value::as_str).map(str::to_owned);
                                let keep = wanted_text || !gen.get("extract_err").map_or(true, Value::is_null);
                                if !keep {
                                    if let Some(o) = gen.as_object_mut() {
                                        o.insert("text".into(), Value::Null);
                                    }
                                }
                                let ok = gen.get("result").and_then(Value::as_str) == Some("ok");
                                Case {
                                    index: i,
                                    case,
                                    gen,
                                    text: if ok { text } else { None },
                                }
                            }
                            Err(e) => Case {
                                index: i,
                                case: Value::Null,
                                gen: json!({"id": null, "driver_error": format!("bad case line {}: {}", i + 1, e)}),
                                text: None,
                            },
                        };
                        slots.lock().unwrap()[i] = Some(c);
                    }
                })
                .expect("spawn worker");
        }
    });
    slots
        .into_inner()
        .unwrap()
        .into_iter()
        .map(|c| c.expect("missing result"))
        .collect()
}

// ---------------------------------------------------------------------------------------------
// scratch crates
// ---------------------------------------------------------------------------------------------

fn fnv(s: &str) -> String {
    let mut h: u64 = 0xcbf29ce484222325;
    for b in s.bytes() {
        h ^= b as u64;
        h = h.wrapping_mul(0x100000001b3);
    }
    format!("{:016x}", h)[..10].to_string()
}

fn write_file(path: &Path, bytes: &[u8]) -> Result<(), String> {
    if let Some(dir) = path.parent() {
        std::fs::create_dir_all(dir).map_err(|e| format!("{}: {}", dir.display(), e))?;
    }
    // do not touch unchanged files (keeps cargo fingerprints fresh)
    if let Ok(old) = std::fs::read(path) {
        if old == bytes {
            return Ok(());
        }
    }
    std::fs::write(path, bytes).map_err(|e| format!("{}: {}", path.display(), e))
}

fn cargo_toml(name: &str, shim: bool) -> String {
    let wgpu = if shim {
        format!("wgpu = {{ path = \"{}\" }}", SHIM_WGPU)
    } else {
        "wgpu = { version = \"=24.0.5\", default-features = false, features = [\"wgsl\"] }".to_string()
    };
    format!(
        r#"# generated by `driver batch`
[package]
name = "{name}"
version = "0.0.0"
edition = "2021"
publish = false

[workspace]

[[bin]]
name = "{name}"
path = "src/main.rs"

[dependencies]
{wgpu}
bytemuck = {{ version = "1", features = ["derive"] }}
encase = {{ version = "0.10", features = ["glam"] }}
glam = {{ version = "0.29", features = ["bytemuck", "serde"] }}
serde = {{ version = "1", features = ["derive"] }}
nalgebra = {{ path = "{nalgebra}" }}

[profile.dev]
debug = 0
incremental = false
codegen-units = 16
"#,
        name = name,
        wgpu = wgpu,
        nalgebra = STUB_NALGEBRA
    )
}

/// Where the compiled copy of module `index` lives and how `main.rs` declares it.
struct ModFile {
    /// path relative to the crate root, as rustc prints it (`src/m3.rs`, `src/inc3/m3.rs`)
    rel: String,
    /// `mod m3;` or `#[path = "inc3/m3.rs"] mod m3;`
    decl: String,
}

/// Writes `src/m<i>.rs`, `src/wgsl<i>.wgsl` and - for the `include_str!` variant - a private
/// directory `src/inc<i>/` holding a copy of the module next to the included file, so that
/// different cases can use the same include path with different contents.
fn write_module(src: &Path, c: &Case) -> Result<ModFile, String> {
    let i = c.index;
    let text = c.text.as_deref().unwrap_or("");
    write_file(&src.join(format!("m{}.rs", i)), text.as_bytes())?;
    write_file(&src.join(format!("wgsl{}.wgsl", i)), c.wgsl().as_bytes())?;
    let plain = ModFile {
        rel: format!("src/m{}.rs", i),
        decl: format!("mod m{};", i),
    };
    let Some(include) = c.include() else { return Ok(plain) };
    let p = Path::new(include);
    if p.is_absolute() || include.is_empty() {
        // never write outside the scratch crate; `include_str!` will simply fail (or find a real file)
        return Ok(plain);
    }
    // how far does the path climb above its starting directory?
    let (mut depth, mut up): (i64, i64) = (0, 0);
    for comp in p.components() {
        match comp {
            Component::ParentDir => depth -= 1,
            Component::Normal(_) => depth += 1,
            _ => {}
        }
        up = up.max(-depth);
    }
    if up > 16 {
        return Ok(plain);
    }
    let mut dir = format!("inc{}", i);
    for _ in 0..up {
        dir.push_str("/d");
    }
    let module_path = format!("{}/m{}.rs", dir, i);
    write_file(&src.join(&module_path), text.as_bytes())?;
    write_file(&src.join(&dir).join(p), c.wgsl().as_bytes())?;
    Ok(ModFile {
        rel: format!("src/{}", module_path),
        decl: format!("#[path = \"{}\"] mod m{};", module_path, i),
    })
}

struct Scratch {
    dir: PathBuf,
    name: String,
    target: &'static str,
    shim: bool,
    mods: BTreeMap<usize, ModFile>,
}

fn setup_crate(outdir: &Path, shim: bool, cases: &[Case]) -> Result<Scratch, String> {
    let dir = outdir.join(if shim { "crate-shim" } else { "crate-real" });
    let src = dir.join("src");
    // stale module files of a previous run must not survive
    if src.exists() {
        std::fs::remove_dir_all(&src).map_err(|e| format!("{}: {}", src.display(), e))?;
    }
    std::fs::create_dir_all(&src).map_err(|e| format!("{}: {}", src.display(), e))?;
    let canonical = outdir.canonicalize().unwrap_or_else(|_| outdir.to_path_buf());
    let name = format!(
        "batch_{}_{}",
        if shim { "shim" } else { "real" },
        fnv(&canonical.to_string_lossy())
    );
    let target = if shim { TARGET_SHIM } else { TARGET_REAL };
    write_file(&dir.join("Cargo.toml"), cargo_toml(&name, shim).as_bytes())?;
    write_file(
        &dir.join(".cargo/config.toml"),
        format!("[build]\ntarget-dir = \"{}\"\n\n[net]\noffline = true\n", target).as_bytes(),
    )?;
    let lock = dir.join("Cargo.lock");
    if !lock.exists() {
        // a resolved lock file of an earlier batch is the best seed, then the repository's
        let cached = Path::new(target).join(if shim { "seed-shim.lock" } else { "seed-real.lock" });
        let seed = if cached.exists() { cached } else { PathBuf::from(SEED_LOCK) };
        std::fs::copy(&seed, &lock).map_err(|e| format!("copy {} -> {}: {}", seed.display(), lock.display(), e))?;
    }
    let mut mods = BTreeMap::new();
    for c in cases.iter().filter(|c| c.text.is_some()) {
        mods.insert(c.index, write_module(&src, c)?);
    }
    if shim {
        write_file(&src.join("support.rs"), probe::SUPPORT_RS.as_bytes())?;
    }
    Ok(Scratch {
        dir,
        name,
        target,
        shim,
        mods,
    })
}

// ---------------------------------------------------------------------------------------------
// cargo and its diagnostics
// ---------------------------------------------------------------------------------------------

#[derive(Debug, Clone)]
struct Diag {
    code: Option<String>,
    message: String,
    rendered: String,
    /// (file relative to the crate root, line) candidates, best first
    places: Vec<(String, u64)>,
}

fn span_places(span: &Value, out: &mut Vec<(String, u64)>) {
    if let (Some(f), Some(l)) = (
        span.get("file_name").and_then(Value::as_str),
        span.get("line_start").and_then(Value::as_u64),
    ) {
        out.push((f.to_string(), l));
    }
    if let Some(exp) = span.get("expansion") {
        if let Some(inner) = exp.get("span") {
            if !inner.is_null() {
                span_places(inner, out);
            }
        }
    }
}

fn diag_places(msg: &Value) -> Vec<(String, u64)> {
    let mut out = Vec::new();
    let spans: Vec<&Value> = msg
        .get("spans")
        .and_then(Value::as_array)
        .map(|a| a.iter().collect())
        .unwrap_or_default();
    for s in spans.iter().filter(|s| s.get("is_primary").and_then(Value::as_bool) == Some(true)) {
        span_places(s, &mut out);
    }
    for s in spans.iter().filter(|s| s.get("is_primary").and_then(Value::as_bool) != Some(true)) {
        span_places(s, &mut out);
    }
    if let Some(children) = msg.get("children").and_then(Value::as_array) {
        for c in children {
            out.extend(diag_places(c));
        }
    }
    out
}

struct CargoRun {
    success: bool,
    errors: Vec<Diag>,
    /// stderr tail, for failures that are not compiler diagnostics
    stderr: String,
    ms: u128,
}

fn run_cargo(s: &Scratch, subcommand: &str) -> Result<CargoRun, String> {
    let t = Instant::now();
    let out = Command::new("cargo")
        .arg(subcommand)
        .arg("--offline")
        .arg("--message-format=json")
        .current_dir(&s.dir)
        .env("CARGO_NET_OFFLINE", "true")
        .env("CARGO_TARGET_DIR", s.target)
        .env("CARGO_TERM_COLOR", "never")
        // the driver itself is built with `--cfg wgsl_to_wgpu_verif`; never leak that
        .env_remove("RUSTFLAGS")
        .env_remove("CARGO_ENCODED_RUSTFLAGS")
        .env_remove("CARGO_BUILD_RUSTFLAGS")
        .env_remove("RUSTC_WRAPPER")
        .output()
        .map_err(|e| format!("cannot run cargo: {}", e))?;
    let mut errors = Vec::new();
    for line in String::from_utf8_lossy(&out.stdout).lines() {
        let Ok(v) = serde_json::from_str::<Value>(line) else { continue };
        if v.get("reason").and_then(Value::as_str) != Some("compiler-message") {
            continue;
        }
        // only the scratch crate itself
        let is_ours = v
            .get("target")
            .and_then(|t| t.get("name"))
            .and_then(Value::as_str)
            .map_or(false, |n| n == s.name);
        if !is_ours {
            continue;
        }
        let Some(msg) = v.get("message") else { continue };
        let level = msg.get("level").and_then(Value::as_str).unwrap_or("");
        if !level.starts_with("error") {
            continue;
        }
        let message = msg.get("message").and_then(Value::as_str).unwrap_or("").to_string();
        if message.starts_with("aborting due to") {
            continue;
        }
        errors.push(Diag {
            code: msg
                .get("code")
                .and_then(|c| c.get("code"))
                .and_then(Value::as_str)
                .map(str::to_owned),
            message,
            rendered: msg.get("rendered").and_then(Value::as_str).unwrap_or("").to_string(),
            places: diag_places(msg),
        });
    }
    let stderr = String::from_utf8_lossy(&out.stderr);
    let tail: Vec<&str> = stderr.lines().rev().take(30).collect();
    Ok(CargoRun {
        success: out.status.success(),
        errors,
        stderr: tail.into_iter().rev().collect::<Vec<_>>().join("\n"),
        ms: t.elapsed().as_millis(),
    })
}

fn truncate_chars(s: &str, max: usize) -> String {
    s.chars().take(max).collect()
}

fn diag_json(d: &Diag, line: Option<u64>) -> Value {
    json!({
        "code": d.code,
        "message": d.message,
        "line": line,
        "rendered": truncate_chars(&d.rendered, 600),
    })
}

#[derive(Clone, Copy, PartialEq, Debug)]
enum FileKind {
    Module,
    Probe,
    Main,
}

/// The module a diagnostic belongs to: (module, kind of file, line in that file).
fn attribute(
    d: &Diag,
    files: &HashMap<String, (usize, FileKind)>,
    main_lines: &HashMap<u64, usize>,
) -> Option<(usize, FileKind, u64)> {
    for (file, line) in &d.places {
        if let Some((i, kind)) = files.get(file) {
            return Some((*i, *kind, *line));
        }
        if file == "src/main.rs" {
            if let Some(i) = main_lines.get(line) {
                return Some((*i, FileKind::Main, *line));
            }
        }
    }
    None
}

// ---------------------------------------------------------------------------------------------
// check mode
// ---------------------------------------------------------------------------------------------

#[derive(Default)]
struct Verdict {
    compile: Option<&'static str>,
    diagnostics: Vec<Value>,
}

fn write_main(s: &Scratch, live: &BTreeSet<usize>, probes: bool) -> Result<HashMap<u64, usize>, String> {
    let mut text = String::from("// generated by `driver batch`\n#![allow(dead_code, unused)]\n");
    let mut lines = HashMap::new();
    let mut line = 2u64;
    if probes {
        text.push_str("mod support;\n");
        line += 1;
    }
    for i in live {
        let m = &s.mods[i];
        text.push_str(&m.decl);
        text.push('\n');
        line += 1;
        lines.insert(line, *i);
        if probes {
            text.push_str(&format!("mod p{};\n", i));
            line += 1;
            lines.insert(line, *i);
        }
    }
    if probes {
        text.push_str("\nconst PROBES: &[(usize, fn() -> String)] = &[\n");
        for i in live {
            text.push_str(&format!("    ({}, p{}::probe),\n", i, i));
        }
        text.push_str("];\n");
        text.push_str(SHIM_MAIN);
    } else {
        text.push_str("\nfn main() {}\n");
    }
    write_file(&s.dir.join("src/main.rs"), text.as_bytes())?;
    Ok(lines)
}

const SHIM_MAIN: &str = r#"
fn main() {
    use std::io::Write;
    // panics are observations; print nothing
    std::panic::set_hook(Box::new(|_| {}));
    let from: usize = std::env::args().nth(1).and_then(|a| a.parse().ok()).unwrap_or(0);
    let worker = std::thread::Builder::new()
        .stack_size(1 << 30)
        .spawn(move || {
            let out = std::io::stdout();
            for (pos, (i, f)) in PROBES.iter().enumerate().skip(from) {
                {
                    let mut o = out.lock();
                    let _ = writeln!(o, "BEGIN {} {}", pos, i);
                    let _ = o.flush();
                }
                let r = std::panic::catch_unwind(*f);
                let mut o = out.lock();
                let _ = match r {
                    Ok(s) => writeln!(o, "OBS {} {}", i, s),
                    Err(p) => writeln!(
                        o,
                        "PANIC {} {}",
                        i,
                        ::wgpu::probe::J::Str(::wgpu::probe::panic_message(p))
                    ),
                };
                let _ = o.flush();
            }
            let mut o = out.lock();
            let _ = writeln!(o, "DONE");
            let _ = o.flush();
        })
        .expect("spawn probe thread");
    let _ = worker.join();
}
"#;

fn file_map(s: &Scratch, live: &BTreeSet<usize>, probes: bool) -> HashMap<String, (usize, FileKind)> {
    let mut files = HashMap::new();
    for i in live {
        files.insert(s.mods[i].rel.clone(), (*i, FileKind::Module));
        if probes {
            files.insert(format!("src/p{}.rs", i), (*i, FileKind::Probe));
        }
    }
    files
}

fn check_real(
    outdir: &Path,
    cases: &[Case],
    rounds: usize,
    keep: bool,
    summary: &mut serde_json::Map<String, Value>,
) -> Result<BTreeMap<usize, Verdict>, String> {
    let t_all = Instant::now();
    let s = setup_crate(outdir, false, cases)?;
    let mut verdicts: BTreeMap<usize, Verdict> = BTreeMap::new();
    let mut live: BTreeSet<usize> = s.mods.keys().copied().collect();
    let mut round_info = Vec::new();
    let mut crate_errors: Vec<Value> = Vec::new();
    for round in 0..rounds {
        if live.is_empty() {
            break;
        }
        let main_lines = write_main(&s, &live, false)?;
        let files = file_map(&s, &live, false);
        let run = run_cargo(&s, "check")?;
        let mut failed: BTreeSet<usize> = BTreeSet::new();
        let mut unattributed = Vec::new();
        for d in &run.errors {
            match attribute(d, &files, &main_lines) {
                Some((i, _, line)) => {
                    failed.insert(i);
                    let j = diag_json(d, Some(line));
                    let list = &mut verdicts.entry(i).or_default().diagnostics;
                    // rustc repeats some trait errors verbatim
                    if !list.contains(&j) {
                        list.push(j);
                    }
                }
                None => unattributed.push(diag_json(d, None)),
            }
        }
        round_info.push(json!({
            "round": round, "modules": live.len(), "ms": run.ms as u64, "success": run.success,
            "modules_with_errors": failed.len(), "unattributed_errors": unattributed.len(),
        }));
        eprintln!(
            "batch: real round {}: {} modules, {} with errors, {} ms{}",
            round,
            live.len(),
            failed.len(),
            run.ms,
            if run.success { ", ok" } else { "" }
        );
        if run.success {
            for i in &live {
                verdicts.entry(*i).or_default().compile = Some("ok");
            }
            live.clear();
            break;
        }
        for i in &failed {
            verdicts.entry(*i).or_default().compile = Some("errors");
            live.remove(i);
        }
        if failed.is_empty() {
            // nothing to drop: cargo itself failed, or errors that belong to no module
            crate_errors = unattributed;
            if crate_errors.is_empty() {
                crate_errors.push(json!({"message": "cargo failed without compiler diagnostics", "stderr": run.stderr}));
            }
            break;
        }
    }
    for i in &live {
        verdicts.entry(*i).or_default().compile = Some("unknown");
    }
    save_lock(&s);
    if !keep {
        remove_artifacts(&s);
    }
    summary.insert(
        "real".into(),
        json!({"crate": s.dir.to_string_lossy(), "package": s.name, "rounds": round_info,
               "crate_level_errors": crate_errors, "total_ms": t_all.elapsed().as_millis() as u64,
               "unknown": live.len()}),
    );
    Ok(verdicts)
}

/// Deletes what cargo left for the scratch crate itself in the shared target directory (binary,
/// rmeta, fingerprints); the dependency builds stay. The crate is rewritten by every batch, so
/// nothing of it can be reused, and every `<outdir>` has its own package name.
fn remove_artifacts(s: &Scratch) {
    let debug = Path::new(s.target).join("debug");
    for dir in [debug.clone(), debug.join("deps"), debug.join(".fingerprint"), debug.join("incremental")] {
        let Ok(entries) = std::fs::read_dir(&dir) else { continue };
        for e in entries.flatten() {
            let name = e.file_name().to_string_lossy().to_string();
            let stem = name.strip_prefix("lib").unwrap_or(&name);
            let ours = stem == s.name
                || stem.starts_with(&format!("{}-", s.name))
                || stem.starts_with(&format!("{}.", s.name));
            if ours {
                let p = e.path();
                let _ = if p.is_dir() { std::fs::remove_dir_all(&p) } else { std::fs::remove_file(&p) };
            }
        }
    }
}

/// Remembers the resolved lock file as seed for later batches.
fn save_lock(s: &Scratch) {
    let cached = Path::new(s.target).join(if s.shim { "seed-shim.lock" } else { "seed-real.lock" });
    let _ = std::fs::copy(s.dir.join("Cargo.lock"), cached);
}

// ---------------------------------------------------------------------------------------------
// run mode
// ---------------------------------------------------------------------------------------------

enum ShimOutcome {
    Obs(String),
    Null(String),
    NullWith(String, Vec<(&'static str, Value)>),
}

fn first_message(v: &Verdict) -> String {
    v.diagnostics
        .first()
        .map(|d| {
            let code = d.get("code").and_then(Value::as_str).unwrap_or("");
            let msg = d.get("message").and_then(Value::as_str).unwrap_or("");
            if code.is_empty() {
                msg.to_string()
            } else {
                format!("{}: {}", code, msg)
            }
        })
        .unwrap_or_default()
}

fn run_shim(
    outdir: &Path,
    cases: &[Case],
    real: Option<&BTreeMap<usize, Verdict>>,
    rounds: usize,
    keep: bool,
    summary: &mut serde_json::Map<String, Value>,
) -> Result<BTreeMap<usize, ShimOutcome>, String> {
    let t_all = Instant::now();
    let s = setup_crate(outdir, true, cases)?;
    let mut outcomes: BTreeMap<usize, ShimOutcome> = BTreeMap::new();
    let mut live: BTreeSet<usize> = BTreeSet::new();
    let mut plans: BTreeMap<usize, probe::ProbePlan> = BTreeMap::new();
    let mut dropped: BTreeMap<usize, Vec<(String, String)>> = BTreeMap::new();
    let mut ranges: BTreeMap<usize, Vec<(&'static str, usize, usize)>> = BTreeMap::new();

    for c in cases.iter().filter(|c| c.text.is_some()) {
        let i = c.index;
        if let Some(v) = real.and_then(|r| r.get(&i)) {
            if v.compile == Some("errors") {
                outcomes.insert(
                    i,
                    ShimOutcome::Null(format!("module does not compile: {}", first_message(v))),
                );
                continue;
            }
        }
        match syn::parse_file(c.text.as_deref().unwrap_or("")) {
            Ok(file) => {
                let info = probe::scan(&file);
                plans.insert(i, probe::plan(&info, i, &c.case));
                live.insert(i);
            }
            Err(e) => {
                outcomes.insert(
                    i,
                    ShimOutcome::Null(format!("module does not compile: generated text does not parse (syn): {}", e)),
                );
            }
        }
    }

    let mut round_info = Vec::new();
    let mut built = false;
    let mut mismatches: Vec<usize> = Vec::new();
    let mut crate_errors: Vec<Value> = Vec::new();
    for round in 0..rounds {
        if live.is_empty() {
            break;
        }
        for i in &live {
            let r = probe::render(&plans[i], dropped.get(i).map_or(&[][..], |d| &d[..]));
            write_file(&s.dir.join(format!("src/p{}.rs", i)), r.text.as_bytes())?;
            ranges.insert(*i, r.ranges);
        }
        let main_lines = write_main(&s, &live, true)?;
        let files = file_map(&s, &live, true);
        let run = run_cargo(&s, "build")?;
        let mut failed_modules: BTreeMap<usize, String> = BTreeMap::new();
        let mut failed_sections: BTreeMap<usize, Vec<(String, String)>> = BTreeMap::new();
        let mut unattributed = Vec::new();
        for d in &run.errors {
            let text = match &d.code {
                Some(c) => format!("{}: {}", c, d.message),
                None => d.message.clone(),
            };
            match attribute(d, &files, &main_lines) {
                Some((i, FileKind::Probe, line)) => {
                    let section = ranges[&i]
                        .iter()
                        .find(|(_, a, b)| (*a as u64) <= line && line <= (*b as u64))
                        .map(|(k, _, _)| k.to_string());
                    match section {
                        Some(k) => {
                            let e = failed_sections.entry(i).or_default();
                            if !e.iter().any(|(kk, _)| *kk == k) {
                                e.push((k, format!("line {}: {}", line, text)));
                            }
                        }
                        None => {
                            failed_modules
                                .entry(i)
                                .or_insert(format!("probe code does not compile (shim): p{}.rs:{}: {}", i, line, text));
                        }
                    }
                }
                Some((i, _, line)) => {
                    failed_modules
                        .entry(i)
                        .or_insert(format!("module does not compile (shim): line {}: {}", line, text));
                }
                None => unattributed.push(diag_json(d, None)),
            }
        }
        round_info.push(json!({
            "round": round, "modules": live.len(), "ms": run.ms as u64, "success": run.success,
            "modules_dropped": failed_modules.len(), "modules_with_dropped_sections": failed_sections.len(),
            "unattributed_errors": unattributed.len(),
        }));
        eprintln!(
            "batch: shim round {}: {} modules, {} dropped, {} with dropped probe sections, {} ms{}",
            round,
            live.len(),
            failed_modules.len(),
            failed_sections.len(),
            run.ms,
            if run.success { ", ok" } else { "" }
        );
        if run.success {
            built = true;
            break;
        }
        if failed_modules.is_empty() && failed_sections.is_empty() {
            crate_errors = unattributed;
            if crate_errors.is_empty() {
                crate_errors.push(json!({"message": "cargo failed without compiler diagnostics", "stderr": run.stderr}));
            }
            break;
        }
        for (i, why) in failed_modules {
            live.remove(&i);
            failed_sections.remove(&i);
            let real_ok = real.and_then(|r| r.get(&i)).map_or(false, |v| v.compile == Some("ok"));
            if real_ok {
                mismatches.push(i);
                outcomes.insert(
                    i,
                    ShimOutcome::NullWith(why, vec![("shim_mismatch", json!(true))]),
                );
            } else {
                outcomes.insert(i, ShimOutcome::Null(why));
            }
        }
        for (i, secs) in failed_sections {
            dropped.entry(i).or_default().extend(secs);
        }
    }
    save_lock(&s);

    let mut run_info = Vec::new();
    if built && !live.is_empty() {
        let exe = Path::new(s.target).join("debug").join(&s.name);
        let order: Vec<usize> = live.iter().copied().collect();
        let mut from = 0usize;
        while from < order.len() {
            let t = Instant::now();
            let out = Command::new(&exe)
                .arg(from.to_string())
                .current_dir(&s.dir)
                .output()
                .map_err(|e| format!("cannot run {}: {}", exe.display(), e))?;
            let stdout = String::from_utf8_lossy(&out.stdout);
            let mut begun: Option<(usize, usize)> = None;
            let mut done = false;
            for line in stdout.lines() {
                let mut parts = line.splitn(3, ' ');
                match (parts.next(), parts.next(), parts.next()) {
                    (Some("BEGIN"), Some(pos), Some(i)) => {
                        if let (Ok(pos), Ok(i)) = (pos.parse(), i.parse()) {
                            begun = Some((pos, i));
                        }
                    }
                    (Some("OBS"), Some(i), Some(obs)) => {
                        if let Ok(i) = i.parse::<usize>() {
                            outcomes.insert(i, ShimOutcome::Obs(obs.to_string()));
                            begun = None;
                        }
                    }
                    (Some("PANIC"), Some(i), Some(msg)) => {
                        if let Ok(i) = i.parse::<usize>() {
                            let m: Value = serde_json::from_str(msg).unwrap_or(Value::Null);
                            outcomes.insert(
                                i,
                                ShimOutcome::NullWith(
                                    "probe panicked outside of any section".into(),
                                    vec![("probe_panic", m)],
                                ),
                            );
                            begun = None;
                        }
                    }
                    (Some("DONE"), _, _) => done = true,
                    _ => {}
                }
            }
            run_info.push(json!({"from": from, "ms": t.elapsed().as_millis() as u64,
                                 "status": format!("{}", out.status), "done": done}));
            if done {
                break;
            }
            match begun {
                Some((pos, i)) => {
                    outcomes.insert(
                        i,
                        ShimOutcome::NullWith(
                            format!("probe crashed the process ({})", out.status),
                            vec![("probe_crash", json!(true))],
                        ),
                    );
                    from = pos + 1;
                }
                None => {
                    // died before the first probe / between probes: give up
                    crate_errors.push(json!({"message": format!("probe binary ended early ({})", out.status),
                                             "stderr": truncate_chars(&String::from_utf8_lossy(&out.stderr), 2000)}));
                    break;
                }
            }
        }
    }
    if !keep {
        remove_artifacts(&s);
    }
    for i in &live {
        outcomes.entry(*i).or_insert_with(|| {
            ShimOutcome::Null(if built {
                "no observation produced".into()
            } else {
                "shim crate did not build within the allowed rounds".into()
            })
        });
    }
    eprintln!(
        "batch: shim: {} observations, {} without{}",
        outcomes.values().filter(|o| matches!(o, ShimOutcome::Obs(_))).count(),
        outcomes.values().filter(|o| !matches!(o, ShimOutcome::Obs(_))).count(),
        if mismatches.is_empty() {
            String::new()
        } else {
            format!(", SHIM MISMATCH (real ok, shim errors) for modules {:?}", mismatches)
        }
    );
    summary.insert(
        "shim".into(),
        json!({"crate": s.dir.to_string_lossy(), "package": s.name, "rounds": round_info, "runs": run_info,
               "built": built, "crate_level_errors": crate_errors, "shim_mismatch_modules": mismatches,
               "modules_with_dropped_sections": dropped.keys().collect::<Vec<_>>(),
               "total_ms": t_all.elapsed().as_millis() as u64}),
    );
    Ok(outcomes)
}

// ---------------------------------------------------------------------------------------------
// entry point
// ---------------------------------------------------------------------------------------------

fn write_lines(path: &Path, lines: impl Iterator<Item = String>) -> Result<(), String> {
    let f = std::fs::File::create(path).map_err(|e| format!("{}: {}", path.display(), e))?;
    let mut w = std::io::BufWriter::new(f);
    for l in lines {
        w.write_all(l.as_bytes()).map_err(|e| e.to_string())?;
        w.write_all(b"\n").map_err(|e| e.to_string())?;
    }
    w.flush().map_err(|e| e.to_string())
}

pub const USAGE: &str = "driver batch <cases.jsonl> <outdir> [--real] [--shim] [--rounds N] [--keep-artifacts]";

pub fn batch(args: &[String]) -> Result<(), String> {
    let mut positional = Vec::new();
    let (mut real, mut shim, mut rounds, mut keep) = (false, false, DEFAULT_ROUNDS, false);
    let mut it = args.iter();
    while let Some(a) = it.next() {
        match a.as_str() {
            "--real" => real = true,
            "--shim" => shim = true,
            "--keep-artifacts" => keep = true,
            "--rounds" => {
                rounds = it
                    .next()
                    .and_then(|v| v.parse().ok())
                    .filter(|n| *n >= 1)
                    .ok_or_else(|| format!("--rounds needs a positive number\nusage: {}", USAGE))?
            }
            s if s.starts_with("--") => return Err(format!("unknown option `{}`\nusage: {}", s, USAGE)),
            _ => positional.push(a.clone()),
        }
    }
    if positional.len() != 2 {
        return Err(format!("usage: {}", USAGE));
    }
    let t = Instant::now();
    let lines = read_lines(&positional[0])?;
    let outdir = PathBuf::from(&positional[1]);
    std::fs::create_dir_all(&outdir).map_err(|e| format!("{}: {}", outdir.display(), e))?;
    let mut summary = serde_json::Map::new();
    let cases = generate(&lines);
    summary.insert("cases".into(), json!(cases.len()));
    summary.insert(
        "generated_ok".into(),
        json!(cases.iter().filter(|c| c.text.is_some()).count()),
    );
    summary.insert("gen_ms".into(), json!(t.elapsed().as_millis() as u64));
    summary.insert("max_rounds".into(), json!(rounds));
    eprintln!(
        "batch: {} cases, generator ok for {}, {} ms",
        cases.len(),
        cases.iter().filter(|c| c.text.is_some()).count(),
        t.elapsed().as_millis()
    );
    write_lines(&outdir.join("gen.jsonl"), cases.iter().map(|c| c.gen.to_string()))?;

    let mut verdicts = None;
    if real {
        let v = check_real(&outdir, &cases, rounds, keep, &mut summary)?;
        write_lines(
            &outdir.join("check.jsonl"),
            cases.iter().map(|c| {
                let (compile, diagnostics) = match v.get(&c.index) {
                    Some(v) => (json!(v.compile), Value::Array(v.diagnostics.clone())),
                    None => (Value::Null, json!([])),
                };
                json!({"id": c.id(), "result": c.result(), "compile": compile, "diagnostics": diagnostics})
                    .to_string()
            }),
        )?;
        verdicts = Some(v);
    }
    if shim {
        let o = run_shim(&outdir, &cases, verdicts.as_ref(), rounds, keep, &mut summary)?;
        write_lines(
            &outdir.join("obs.jsonl"),
            cases.iter().map(|c| match o.get(&c.index) {
                Some(ShimOutcome::Obs(text)) => text.clone(),
                Some(ShimOutcome::Null(why)) => json!({"id": c.id(), "obs": null, "why": why}).to_string(),
                Some(ShimOutcome::NullWith(why, extra)) => {
                    let mut v = json!({"id": c.id(), "obs": null, "why": why});
                    for (k, x) in extra {
                        v[*k] = x.clone();
                    }
                    v.to_string()
                }
                None => {
                    let why = match c.gen.get("result").and_then(Value::as_str) {
                        Some("err") => "generator err".to_string(),
                        Some("panic") => "generator panic".to_string(),
                        _ => "no generated text".to_string(),
                    };
                    json!({"id": c.id(), "obs": null, "why": why}).to_string()
                }
            }),
        )?;
    }
    summary.insert("total_ms".into(), json!(t.elapsed().as_millis() as u64));
    write_file(
        &outdir.join("batch_summary.json"),
        serde_json::to_string_pretty(&Value::Object(summary))
            .unwrap_or_default()
            .as_bytes(),
    )?;
    Ok(())
}
