#!/usr/bin/env python3
"""Writes /verif/harness/driver/testdata/wgpu_smoke.jsonl (cases for `driver wgpu`)."""
import json, sys
cases = []
def case(name, wgsl, **opts):
    cases.append({"id": len(cases), "name": name, "wgsl": wgsl.strip() + "\n", "include": None,
                  "opts": dict({"bm_vertex": False, "bm_host": False, "encase": False, "serde": False,
                                "mv": "Rust", "rustfmt": False, "validate": False}, **opts),
                  "want_text": False})

S = "struct S { a: vec4<f32>, b: mat4x4<f32>, c: u32, d: vec3<f32>, e: array<vec4<f32>, 3> }\n"

case("uniform_all_shapes", S + """
@group(0) @binding(0) var<uniform> u_struct: S;
@group(0) @binding(1) var<uniform> u_array: array<vec4<f32>, 8>;
@group(0) @binding(2) var<uniform> u_scalar: f32;
@group(0) @binding(3) var<uniform> u_vec: vec3<i32>;
@group(0) @binding(4) var<uniform> u_mat: mat3x3<f32>;
@group(0) @binding(5) var<uniform> u_u32: u32;
@group(1) @binding(0) var<storage, read_write> out: array<f32>;
@compute @workgroup_size(8, 2, 1) fn main(@builtin(global_invocation_id) id: vec3<u32>) {
  out[id.x] = u_struct.a.x + u_array[1].y + u_scalar + f32(u_vec.z) + u_mat[1][1] + f32(u_u32) + u_struct.e[2].w;
}""")

case("storage_read_all_shapes", S + """
struct R { n: u32, data: array<vec2<f32>> }
@group(0) @binding(0) var<storage, read> s_struct: S;
@group(0) @binding(1) var<storage, read> s_array: array<u32, 16>;
@group(0) @binding(2) var<storage, read> s_rt: array<vec4<f32>>;
@group(0) @binding(3) var<storage, read> s_scalar: i32;
@group(0) @binding(4) var<storage, read> s_vec: vec2<u32>;
@group(0) @binding(5) var<storage, read> s_mat: mat2x4<f32>;
@group(0) @binding(6) var<storage> s_default_access: R;
@group(0) @binding(7) var<storage, read_write> out: array<f32>;
@compute @workgroup_size(64) fn main(@builtin(global_invocation_id) id: vec3<u32>) {
  out[id.x] = s_struct.b[0][0] + f32(s_array[3]) + s_rt[id.x].x + f32(s_scalar) + f32(s_vec.y) + s_mat[1].w
            + s_default_access.data[s_default_access.n].y + f32(arrayLength(&s_rt));
}""", encase=True)

case("storage_read_write_all_shapes", S + """
struct A { counter: atomic<u32>, flags: array<atomic<i32>, 4> }
struct R { n: u32, data: array<S> }
@group(0) @binding(0) var<storage, read_write> w_struct: S;
@group(0) @binding(1) var<storage, read_write> w_array: array<u32, 16>;
@group(0) @binding(2) var<storage, read_write> w_rt: array<vec4<f32>>;
@group(0) @binding(3) var<storage, read_write> w_scalar: f32;
@group(0) @binding(4) var<storage, read_write> w_vec: vec4<i32>;
@group(0) @binding(5) var<storage, read_write> w_mat: mat4x3<f32>;
@group(0) @binding(6) var<storage, read_write> w_atomic: A;
@group(0) @binding(7) var<storage, read_write> w_rts: R;
@compute @workgroup_size(1) fn main(@builtin(global_invocation_id) id: vec3<u32>) {
  w_struct.c = 1u; w_array[2] = 3u; w_rt[id.x] = vec4<f32>(1.0); w_scalar = 2.0; w_vec = vec4<i32>(1);
  w_mat[0] = vec3<f32>(1.0); atomicAdd(&w_atomic.counter, 1u); atomicMax(&w_atomic.flags[1], 2);
  w_rts.data[0].c = w_rts.n;
}""", encase=True)

case("sampled_f32_all_dims_fragment", """
@group(0) @binding(0) var t1: texture_1d<f32>;
@group(0) @binding(1) var t2: texture_2d<f32>;
@group(0) @binding(2) var t2a: texture_2d_array<f32>;
@group(0) @binding(3) var t3: texture_3d<f32>;
@group(0) @binding(4) var tc: texture_cube<f32>;
@group(0) @binding(5) var tca: texture_cube_array<f32>;
@group(0) @binding(6) var s: sampler;
@fragment fn fs_main(@location(0) uv: vec2<f32>) -> @location(0) vec4<f32> {
  return textureSample(t1, s, uv.x) + textureSample(t2, s, uv) + textureSample(t2a, s, uv, 1)
       + textureSample(t3, s, vec3<f32>(uv, 0.0)) + textureSample(tc, s, vec3<f32>(uv, 1.0))
       + textureSample(tca, s, vec3<f32>(uv, 1.0), 2);
}""")

for k, z in (("i32", "0"), ("u32", "0u")):
    case("sampled_%s_all_dims_load" % k, """
@group(0) @binding(0) var t1: texture_1d<K>;
@group(0) @binding(1) var t2: texture_2d<K>;
@group(0) @binding(2) var t2a: texture_2d_array<K>;
@group(0) @binding(3) var t3: texture_3d<K>;
@group(0) @binding(4) var tc: texture_cube<K>;
@group(0) @binding(5) var tca: texture_cube_array<K>;
@group(0) @binding(6) var<storage, read_write> out: array<vec4<K>>;
@compute @workgroup_size(1) fn main() {
  out[0] = textureLoad(t1, 0, 0) + textureLoad(t2, vec2<i32>(0, 0), 0) + textureLoad(t2a, vec2<i32>(0, 0), 0, 0)
         + textureLoad(t3, vec3<i32>(0, 0, 0), 0);
  out[1] = vec4<K>(vec2<u32>(textureDimensions(tc)).xyxy) + vec4<K>(vec2<u32>(textureDimensions(tca)).xyxy);
}""".replace("K", k))

case("depth_textures_compare", """
@group(0) @binding(0) var d2: texture_depth_2d;
@group(0) @binding(1) var d2a: texture_depth_2d_array;
@group(0) @binding(2) var dc: texture_depth_cube;
@group(0) @binding(3) var dca: texture_depth_cube_array;
@group(0) @binding(4) var dms: texture_depth_multisampled_2d;
@group(0) @binding(5) var sc: sampler_comparison;
@fragment fn fs_main(@location(0) uv: vec2<f32>) -> @location(0) vec4<f32> {
  let a = textureSampleCompare(d2, sc, uv, 0.5) + textureSampleCompare(d2a, sc, uv, 1, 0.5)
        + textureSampleCompare(dc, sc, vec3<f32>(uv, 1.0), 0.5) + textureSampleCompare(dca, sc, vec3<f32>(uv, 1.0), 1, 0.5)
        + textureSampleCompareLevel(d2, sc, uv, 0.25);
  let b = textureLoad(dms, vec2<i32>(0, 0), 1) + textureLoad(d2, vec2<i32>(0, 0), 0);
  let g = textureGatherCompare(d2, sc, uv, 0.5);
  return vec4<f32>(a + b) + g;
}""")

case("depth_with_plain_sampler", """
@group(0) @binding(0) var d2: texture_depth_2d;
@group(0) @binding(1) var s: sampler;
@fragment fn fs_main(@location(0) uv: vec2<f32>) -> @location(0) vec4<f32> {
  return vec4<f32>(textureSample(d2, s, uv)) + textureGather(d2, s, uv);
}""")

case("multisampled_f32", """
@group(0) @binding(0) var tms: texture_multisampled_2d<f32>;
@fragment fn fs_main(@builtin(sample_index) si: u32) -> @location(0) vec4<f32> {
  return textureLoad(tms, vec2<i32>(0, 0), i32(si));
}""")

case("multisampled_int", """
@group(0) @binding(0) var tmi: texture_multisampled_2d<i32>;
@group(0) @binding(1) var tmu: texture_multisampled_2d<u32>;
@fragment fn fs_main(@builtin(sample_index) si: u32) -> @location(0) vec4<f32> {
  return vec4<f32>(textureLoad(tmi, vec2<i32>(0, 0), i32(si))) + vec4<f32>(textureLoad(tmu, vec2<i32>(0, 0), i32(si)));
}""")

case("storage_tex_write_formats_dims", """
@group(0) @binding(0) var w1: texture_storage_1d<rgba8unorm, write>;
@group(0) @binding(1) var w2: texture_storage_2d<rgba16float, write>;
@group(0) @binding(2) var w2a: texture_storage_2d_array<r32float, write>;
@group(0) @binding(3) var w3: texture_storage_3d<rgba32uint, write>;
@group(0) @binding(4) var w4: texture_storage_2d<rg32sint, write>;
@group(0) @binding(5) var w5: texture_storage_2d<rgba8snorm, write>;
@group(0) @binding(6) var w6: texture_storage_2d<bgra8unorm, write>;
@group(0) @binding(7) var w7: texture_storage_2d<rg11b10float, write>;
@group(0) @binding(8) var w8: texture_storage_2d<r16unorm, write>;
@compute @workgroup_size(1) fn main() {
  textureStore(w1, 0, vec4<f32>(1.0)); textureStore(w2, vec2<i32>(0, 0), vec4<f32>(1.0));
  textureStore(w2a, vec2<i32>(0, 0), 1, vec4<f32>(1.0)); textureStore(w3, vec3<i32>(0, 0, 0), vec4<u32>(1u));
  textureStore(w4, vec2<i32>(0, 0), vec4<i32>(1)); textureStore(w5, vec2<i32>(0, 0), vec4<f32>(1.0));
  textureStore(w6, vec2<i32>(0, 0), vec4<f32>(1.0)); textureStore(w7, vec2<i32>(0, 0), vec4<f32>(1.0));
  textureStore(w8, vec2<i32>(0, 0), vec4<f32>(1.0));
}""")

case("storage_tex_read_formats_dims", """
@group(0) @binding(0) var r1: texture_storage_1d<r32float, read>;
@group(0) @binding(1) var r2: texture_storage_2d<rgba8unorm, read>;
@group(0) @binding(2) var r2a: texture_storage_2d_array<rgba16uint, read>;
@group(0) @binding(3) var r3: texture_storage_3d<r32sint, read>;
@group(0) @binding(4) var<storage, read_write> out: array<vec4<f32>>;
@compute @workgroup_size(1) fn main() {
  out[0] = textureLoad(r1, 0) + textureLoad(r2, vec2<i32>(0, 0)) + vec4<f32>(textureLoad(r2a, vec2<i32>(0, 0), 0))
         + vec4<f32>(textureLoad(r3, vec3<i32>(0, 0, 0)));
}""")

case("storage_tex_read_write_formats_dims", """
@group(0) @binding(0) var rw1: texture_storage_1d<r32uint, read_write>;
@group(0) @binding(1) var rw2: texture_storage_2d<r32float, read_write>;
@group(0) @binding(2) var rw2a: texture_storage_2d_array<r32sint, read_write>;
@group(0) @binding(3) var rw3: texture_storage_3d<rgba8unorm, read_write>;
@compute @workgroup_size(1) fn main() {
  textureStore(rw1, 0, textureLoad(rw1, 0) + vec4<u32>(1u));
  textureStore(rw2, vec2<i32>(0, 0), textureLoad(rw2, vec2<i32>(0, 0)) + vec4<f32>(1.0));
  textureStore(rw2a, vec2<i32>(0, 0), 0, textureLoad(rw2a, vec2<i32>(0, 0), 0) + vec4<i32>(1));
  textureStore(rw3, vec3<i32>(0, 0, 0), textureLoad(rw3, vec3<i32>(0, 0, 0)));
}""")

case("storage_tex_atomic_r32uint", """
@group(0) @binding(0) var at: texture_storage_2d<r32uint, atomic>;
@compute @workgroup_size(1) fn main() {
  textureAtomicAdd(at, vec2<i32>(0, 0), 1u);
}""")

case("storage_tex_atomic_r32sint_3d_and_2darray", """
@group(0) @binding(0) var at3: texture_storage_3d<r32sint, atomic>;
@group(0) @binding(1) var at2a: texture_storage_2d_array<r32uint, atomic>;
@compute @workgroup_size(1) fn main() {
  textureAtomicMax(at3, vec3<i32>(0, 0, 0), 1);
  textureAtomicOr(at2a, vec2<i32>(0, 0), 1, 1u);
}""")

case("storage_tex_atomic_r64uint", """
@group(0) @binding(0) var at: texture_storage_2d<r64uint, atomic>;
@compute @workgroup_size(1) fn main() {
  textureAtomicMax(at, vec2<i32>(0, 0), 1lu);
}""")

case("storage_tex_write_in_fragment_and_vertex_visible", """
@group(0) @binding(0) var w: texture_storage_2d<rgba8unorm, write>;
@group(0) @binding(1) var<storage, read_write> buf: array<u32>;
@vertex fn vs_main(@builtin(vertex_index) vi: u32) -> @builtin(position) vec4<f32> {
  buf[vi] = vi;
  return vec4<f32>(0.0);
}
@fragment fn fs_main() -> @location(0) vec4<f32> {
  textureStore(w, vec2<i32>(0, 0), vec4<f32>(1.0));
  buf[0] = 1u;
  return vec4<f32>(1.0);
}""")

case("gather_f32", """
@group(0) @binding(0) var t: texture_2d<f32>;
@group(0) @binding(1) var s: sampler;
@group(0) @binding(2) var<storage, read_write> out: array<vec4<f32>>;
@compute @workgroup_size(1) fn main() { out[0] = textureGather(1, t, s, vec2<f32>(0.5)); }""")

case("gather_i32", """
@group(0) @binding(0) var t: texture_2d<i32>;
@group(0) @binding(1) var s: sampler;
@group(0) @binding(2) var<storage, read_write> out: array<vec4<i32>>;
@compute @workgroup_size(1) fn main() { out[0] = textureGather(0, t, s, vec2<f32>(0.5)); }""")

case("gather_u32_cube_fragment", """
@group(0) @binding(0) var t: texture_cube<u32>;
@group(0) @binding(1) var s: sampler;
@fragment fn fs_main(@location(0) d: vec3<f32>) -> @location(0) vec4<u32> { return textureGather(2, t, s, d); }""")

case("load_only_f32_no_sampler_vertex", """
@group(0) @binding(0) var t: texture_2d<f32>;
@group(0) @binding(1) var ta: texture_2d_array<f32>;
@vertex fn vs_main(@builtin(vertex_index) vi: u32) -> @builtin(position) vec4<f32> {
  return textureLoad(t, vec2<i32>(i32(vi), 0), 0) + textureLoad(ta, vec2<i32>(0, 0), 1, 0);
}""")

case("sample_level_in_vertex_and_compute", """
@group(0) @binding(0) var t: texture_2d<f32>;
@group(0) @binding(1) var s: sampler;
@group(1) @binding(0) var<storage, read_write> out: array<vec4<f32>>;
@vertex fn vs_main(@builtin(vertex_index) vi: u32) -> @builtin(position) vec4<f32> {
  return textureSampleLevel(t, s, vec2<f32>(f32(vi)), 0.0);
}
@compute @workgroup_size(1) fn cs_main() { out[0] = textureSampleLevel(t, s, vec2<f32>(0.5), 1.0); }""")

case("multi_stage_and_helpers", """
struct Camera { view_proj: mat4x4<f32>, eye: vec4<f32> }
struct Light { color: vec4<f32> }
@group(0) @binding(0) var<uniform> camera: Camera;
@group(0) @binding(1) var<uniform> light: Light;
@group(1) @binding(0) var color_tex: texture_2d<f32>;
@group(1) @binding(1) var color_samp: sampler;
@group(1) @binding(2) var<storage, read> weights: array<f32>;
@group(2) @binding(0) var<storage, read_write> counters: array<atomic<u32>>;
fn eye() -> vec4<f32> { return camera.eye; }
fn lit(c: vec4<f32>) -> vec4<f32> { return c * light.color + eye(); }
fn fetch(uv: vec2<f32>) -> vec4<f32> { return textureSample(color_tex, color_samp, uv); }
fn shade(uv: vec2<f32>) -> vec4<f32> { return lit(fetch(uv)) * weights[0]; }
fn bump() { atomicAdd(&counters[0], 1u); }
struct VsOut { @builtin(position) pos: vec4<f32>, @location(0) uv: vec2<f32> }
@vertex fn vs_main(@builtin(vertex_index) vi: u32) -> VsOut {
  var o: VsOut; o.pos = camera.view_proj * vec4<f32>(f32(vi), weights[vi], 0.0, 1.0); o.uv = vec2<f32>(0.0); return o;
}
@fragment fn fs_main(i: VsOut) -> @location(0) vec4<f32> { bump(); return shade(i.uv); }
@compute @workgroup_size(4) fn cs_main() { bump(); let e = eye(); }""")

case("sparse_bindings", """
@group(0) @binding(3) var<uniform> a: vec4<f32>;
@group(0) @binding(17) var<storage, read_write> b: array<f32>;
@group(0) @binding(999) var t: texture_2d<f32>;
@group(1) @binding(64) var s: sampler;
@group(1) @binding(7) var<uniform> c: f32;
@compute @workgroup_size(1) fn main() { b[0] = a.x + c + textureLoad(t, vec2<i32>(0, 0), 0).x; }""")

case("binding_1000_over_default_limit", """
@group(0) @binding(1000) var<uniform> a: vec4<f32>;
@group(0) @binding(2147483647) var<storage, read_write> b: array<f32>;
@compute @workgroup_size(1) fn main() { b[0] = a.x; }""")

case("five_groups", """
@group(0) @binding(0) var<uniform> g0: f32;
@group(1) @binding(0) var<uniform> g1: f32;
@group(2) @binding(0) var<uniform> g2: f32;
@group(3) @binding(0) var<uniform> g3: f32;
@group(4) @binding(0) var<storage, read_write> g4: array<f32>;
@compute @workgroup_size(1) fn main() { g4[0] = g0 + g1 + g2 + g3; }""")

case("unused_and_partially_used_resources", """
@group(0) @binding(0) var<uniform> used: f32;
@group(0) @binding(1) var<uniform> unused: vec4<f32>;
@group(0) @binding(2) var unused_tex: texture_2d<f32>;
@group(0) @binding(3) var unused_samp: sampler;
@group(0) @binding(4) var<storage, read_write> out: array<f32>;
@compute @workgroup_size(1) fn main() { out[0] = used; }
@fragment fn fs_main() -> @location(0) vec4<f32> { return vec4<f32>(used); }""")

case("vertex_one_struct_all_scalar_vector_types", """
struct VertexInput {
  @location(0) f1: f32,
  @builtin(vertex_index) vi: u32,
  @location(1) f2: vec2<f32>,
  @location(2) f3: vec3<f32>,
  @location(3) f4: vec4<f32>,
  @builtin(instance_index) ii: u32,
  @location(4) i1: i32,
  @location(5) i2: vec2<i32>,
  @location(6) i3: vec3<i32>,
  @location(7) i4: vec4<i32>,
  @location(8) u1: u32,
  @location(9) u2: vec2<u32>,
  @location(10) u3: vec3<u32>,
  @location(11) u4: vec4<u32>,
}
@vertex fn vs_main(v: VertexInput) -> @builtin(position) vec4<f32> {
  return vec4<f32>(v.f1 + v.f2.x + v.f3.x + f32(v.i1 + v.i2.x + v.i3.x + v.i4.x) + f32(v.u1 + v.u2.x + v.u3.x + v.u4.x + v.vi + v.ii)) + v.f4;
}""")

case("vertex_two_structs_and_builtin_args", """
struct VertexInput0 { @location(0) position: vec3<f32>, @location(2) normal: vec3<f32> }
struct InstanceInput { @location(1) offset: vec4<f32>, @builtin(instance_index) ii: u32, @location(5) id: u32 }
struct VsOut { @builtin(position) pos: vec4<f32>, @location(0) n: vec3<f32>, @location(1) @interpolate(flat) id: u32 }
@vertex fn vs_main(a: VertexInput0, @builtin(vertex_index) vi: u32, b: InstanceInput) -> VsOut {
  var o: VsOut; o.pos = vec4<f32>(a.position, 1.0) + b.offset; o.n = a.normal; o.id = b.id + vi + b.ii; return o;
}
@fragment fn fs_main(i: VsOut) -> @location(0) vec4<f32> { return vec4<f32>(i.n, f32(i.id)); }""", bm_vertex=True)

case("vertex_bare_location_args", """
@vertex fn vs_main(@location(0) p: vec3<f32>, @location(1) c: vec4<u32>, @builtin(vertex_index) vi: u32) -> @builtin(position) vec4<f32> {
  return vec4<f32>(p, f32(c.x + vi));
}""")

case("vertex_struct_plus_bare_location_arg", """
struct VIn { @location(0) p: vec3<f32> }
@vertex fn vs_main(v: VIn, @location(1) extra: vec2<f32>) -> @builtin(position) vec4<f32> {
  return vec4<f32>(v.p, extra.x);
}""")

case("two_vertex_entries_sharing_struct_and_fragment_interpolation", """
struct VIn { @location(0) p: vec4<f32>, @location(1) k: vec2<i32> }
struct Inst { @location(2) m0: vec4<f32>, @location(3) m1: vec4<f32> }
struct V2F {
  @builtin(position) pos: vec4<f32>,
  @location(0) a: vec4<f32>,
  @location(1) @interpolate(flat) b: vec2<i32>,
  @location(2) @interpolate(linear, centroid) c: vec2<f32>,
  @location(3) @interpolate(perspective, sample) d: f32,
  @location(4) @interpolate(linear) e: vec3<f32>,
}
@vertex fn vs_a(v: VIn) -> V2F { var o: V2F; o.pos = v.p; o.b = v.k; return o; }
@vertex fn vs_b(v: VIn, i: Inst) -> V2F { var o: V2F; o.pos = v.p + i.m0 + i.m1; return o; }
@fragment fn fs_main(i: V2F, @builtin(front_facing) ff: bool) -> @location(0) vec4<f32> {
  return i.a + vec4<f32>(i.c, i.d, f32(i.b.x)) + vec4<f32>(i.e, 0.0);
}
@fragment fn fs_partial(@location(0) a: vec4<f32>, @location(4) @interpolate(linear) e: vec3<f32>) -> @location(0) vec4<f32> { return a + vec4<f32>(e, 1.0); }""")

case("same_sampler_float_sample_and_int_gather", """
@group(0) @binding(0) var tf: texture_2d<f32>;
@group(0) @binding(1) var ti: texture_2d<i32>;
@group(0) @binding(2) var s: sampler;
@fragment fn fs_float(@location(0) uv: vec2<f32>) -> @location(0) vec4<f32> { return textureSample(tf, s, uv); }
@fragment fn fs_int(@location(0) uv: vec2<f32>) -> @location(0) vec4<i32> { return textureGather(1, ti, s, uv); }""")

case("push_constants_overrides_and_bindings", """
struct Pc { scale: f32, offset: vec2<f32> }
var<push_constant> pc: Pc;
override gain: f32 = 2.0;
@group(0) @binding(0) var<storage, read_write> out: array<f32>;
@compute @workgroup_size(16) fn main(@builtin(local_invocation_index) li: u32) { out[li] = pc.scale * gain + pc.offset.x; }""")

case("binding_array_textures", """
@group(0) @binding(0) var texs: binding_array<texture_2d<f32>, 4>;
@group(0) @binding(1) var s: sampler;
@fragment fn fs_main(@location(0) uv: vec2<f32>) -> @location(0) vec4<f32> { return textureSample(texs[1], s, uv); }""")

case("acceleration_structure", """
@group(0) @binding(0) var acc: acceleration_structure;
@group(0) @binding(1) var<storage, read_write> out: array<u32>;
@compute @workgroup_size(1) fn main() {
  var rq: ray_query;
  rayQueryInitialize(&rq, acc, RayDesc(0u, 0xFFu, 0.1, 100.0, vec3<f32>(0.0), vec3<f32>(0.0, 0.0, 1.0)));
  rayQueryProceed(&rq);
  out[0] = rayQueryGetCommittedIntersection(&rq).kind;
}""")

case("workgroup_and_private_vars_not_bound", """
var<workgroup> tile: array<f32, 64>;
var<private> acc: f32;
@group(0) @binding(0) var<storage, read> src: array<f32>;
@group(0) @binding(1) var<storage, read_write> dst: array<f32>;
@compute @workgroup_size(64) fn main(@builtin(local_invocation_index) li: u32) {
  tile[li] = src[li]; workgroupBarrier(); acc = tile[63u - li]; dst[li] = acc;
}""")

case("invalid_wgsl_parse", "fn main( {")
case("invalid_wgsl_validation", "@compute @workgroup_size(1) fn main() { var x: u32 = 1u; x = x + 1; }".replace("x + 1;", "x + 1.5;"))
case("non_consecutive_groups", """
@group(0) @binding(0) var<uniform> a: f32;
@group(2) @binding(0) var<storage, read_write> b: array<f32>;
@compute @workgroup_size(1) fn main() { b[0] = a; }""")

def groups(n):
    return "".join("@group(%d) @binding(0) var<uniform> g%d: f32;\n" % (i, i) for i in range(n)) + \
        "@group(%d) @binding(0) var<storage, read_write> o: array<f32>;\n" % n + \
        "@compute @workgroup_size(1) fn main() { o[0] = " + " + ".join("g%d" % i for i in range(n)) + "; }"
case("eight_groups", groups(7))
case("nine_groups_over_hal_max", groups(8))
case("rustfmt_opt_true_is_overridden", """
@group(0) @binding(0) var<uniform> a: vec4<f32>;
@fragment fn fs_main() -> @location(0) vec4<f32> { return a; }""", rustfmt=True)
cases[-1]["want_text"] = True

out = sys.argv[1] if len(sys.argv) > 1 else "/verif/harness/driver/testdata/wgpu_smoke.jsonl"
with open(out, "w") as f:
    for c in cases:
        f.write(json.dumps(c) + "\n")
print(len(cases), "cases ->", out)
