//! Shim-only support for probe code: the event log, a tiny JSON value, digests of the log in the
//! shapes described in /verif/harness/BATCH_SPEC.md and a few helpers (component counter, hex,
//! trait-implementation test, section runner with `catch_unwind`).

use crate::{BindGroupLayoutEntry, PushConstantRange, VertexAttribute, VertexBufferLayout};
use std::cell::{Cell, RefCell};
use std::collections::HashMap;
use std::fmt::{self, Write as _};
use std::panic::{catch_unwind, AssertUnwindSafe};

// ---------------------------------------------------------------------------------------------
// ids and the log
// ---------------------------------------------------------------------------------------------

thread_local! {
    static NEXT_ID: Cell<u64> = const { Cell::new(1) };
    static LOG: RefCell<Vec<Event>> = const { RefCell::new(Vec::new()) };
}

pub(crate) fn next_id() -> u64 {
    NEXT_ID.with(|n| {
        let v = n.get();
        n.set(v + 1);
        v
    })
}

pub(crate) fn record(e: Event) {
    LOG.with(|l| l.borrow_mut().push(e));
}

/// Takes all events logged on this thread since the last call.
pub fn drain() -> Vec<Event> {
    LOG.with(|l| std::mem::take(&mut *l.borrow_mut()))
}

/// What a bind group layout was created from.
#[derive(Debug, Clone)]
pub struct LayoutDesc {
    pub label: Option<String>,
    pub entries: Vec<BindGroupLayoutEntry>,
}

/// One resource of a `create_bind_group` call (arrays are flattened, same `binding`).
#[derive(Debug, Clone)]
pub struct BgEntry {
    pub binding: u32,
    pub kind: &'static str,
    pub res_id: u64,
    pub tag: u64,
    pub offset: Option<u64>,
    pub size: Option<u64>,
}

#[derive(Debug, Clone)]
pub enum Event {
    CreateShaderModule {
        id: u64,
        label: Option<String>,
        source: String,
    },
    CreateBindGroupLayout {
        id: u64,
        desc: LayoutDesc,
    },
    CreateBindGroup {
        id: u64,
        label: Option<String>,
        layout_id: u64,
        layout: LayoutDesc,
        entries: Vec<BgEntry>,
    },
    CreatePipelineLayout {
        id: u64,
        label: Option<String>,
        layouts: Vec<(u64, LayoutDesc)>,
        push_constant_ranges: Vec<PushConstantRange>,
    },
    CreateComputePipeline {
        id: u64,
        label: Option<String>,
        layout_id: Option<u64>,
        module_id: u64,
        module_source: String,
        entry_point: Option<String>,
        constants: Vec<(String, f64)>,
        zero_initialize_workgroup_memory: bool,
        cache_id: Option<u64>,
    },
    CreateRenderPipeline {
        id: u64,
        label: Option<String>,
        layout_id: Option<u64>,
        vertex_module_id: u64,
        vertex_entry_point: Option<String>,
        vertex_constants: Vec<(String, f64)>,
        vertex_buffers: usize,
        fragment_module_id: Option<u64>,
        fragment_entry_point: Option<String>,
        fragment_targets: Option<usize>,
    },
    SetBindGroup {
        pass: &'static str,
        pass_id: u64,
        index: u32,
        bind_group_id: Option<u64>,
        offsets: Vec<u32>,
    },
}

impl Event {
    pub fn kind(&self) -> &'static str {
        match self {
            Event::CreateShaderModule { .. } => "create_shader_module",
            Event::CreateBindGroupLayout { .. } => "create_bind_group_layout",
            Event::CreateBindGroup { .. } => "create_bind_group",
            Event::CreatePipelineLayout { .. } => "create_pipeline_layout",
            Event::CreateComputePipeline { .. } => "create_compute_pipeline",
            Event::CreateRenderPipeline { .. } => "create_render_pipeline",
            Event::SetBindGroup { .. } => "set_bind_group",
        }
    }
}

// ---------------------------------------------------------------------------------------------
// JSON
// ---------------------------------------------------------------------------------------------

/// A JSON value; `Display` prints compact, valid JSON.
#[derive(Debug, Clone, PartialEq)]
pub enum J {
    Null,
    Bool(bool),
    Int(i128),
    UInt(u128),
    /// finite values print as JSON numbers, the others as the strings "NaN", "inf", "-inf"
    F64(f64),
    Str(String),
    Arr(Vec<J>),
    Obj(Vec<(String, J)>),
    /// already serialised JSON text
    Raw(String),
}

impl J {
    pub fn str(s: impl AsRef<str>) -> J {
        J::Str(s.as_ref().to_owned())
    }
    pub fn opt_str(s: Option<impl AsRef<str>>) -> J {
        s.map_or(J::Null, J::str)
    }
    pub fn uint(v: impl Into<u128>) -> J {
        J::UInt(v.into())
    }
    pub fn usize(v: usize) -> J {
        J::UInt(v as u128)
    }
    pub fn opt_uint(v: Option<impl Into<u128>>) -> J {
        v.map_or(J::Null, J::uint)
    }
    pub fn debug(v: &impl fmt::Debug) -> J {
        J::Str(format!("{:?}", v))
    }
    pub fn obj() -> JObj {
        JObj(Vec::new())
    }
    pub fn arr(items: impl IntoIterator<Item = J>) -> J {
        J::Arr(items.into_iter().collect())
    }
}

/// Builder for [`J::Obj`] (insertion order is kept).
pub struct JObj(Vec<(String, J)>);

impl JObj {
    pub fn put(mut self, key: &str, value: J) -> Self {
        self.0.push((key.to_owned(), value));
        self
    }
    pub fn set(&mut self, key: &str, value: J) {
        self.0.push((key.to_owned(), value));
    }
    pub fn done(self) -> J {
        J::Obj(self.0)
    }
}

fn write_json_string(f: &mut fmt::Formatter<'_>, s: &str) -> fmt::Result {
    f.write_char('"')?;
    for c in s.chars() {
        match c {
            '"' => f.write_str("\\\"")?,
            '\\' => f.write_str("\\\\")?,
            '\n' => f.write_str("\\n")?,
            '\r' => f.write_str("\\r")?,
            '\t' => f.write_str("\\t")?,
            c if (c as u32) < 0x20 => write!(f, "\\u{:04x}", c as u32)?,
            c => f.write_char(c)?,
        }
    }
    f.write_char('"')
}

impl fmt::Display for J {
    fn fmt(&self, f: &mut fmt::Formatter<'_>) -> fmt::Result {
        match self {
            J::Null => f.write_str("null"),
            J::Bool(b) => write!(f, "{}", b),
            J::Int(v) => write!(f, "{}", v),
            J::UInt(v) => write!(f, "{}", v),
            J::F64(v) if v.is_finite() => write!(f, "{:?}", v),
            J::F64(v) if v.is_nan() => f.write_str("\"NaN\""),
            J::F64(v) if *v > 0.0 => f.write_str("\"inf\""),
            J::F64(_) => f.write_str("\"-inf\""),
            J::Str(s) => write_json_string(f, s),
            J::Arr(items) => {
                f.write_char('[')?;
                for (i, it) in items.iter().enumerate() {
                    if i > 0 {
                        f.write_char(',')?;
                    }
                    it.fmt(f)?;
                }
                f.write_char(']')
            }
            J::Obj(fields) => {
                f.write_char('{')?;
                for (i, (k, v)) in fields.iter().enumerate() {
                    if i > 0 {
                        f.write_char(',')?;
                    }
                    write_json_string(f, k)?;
                    f.write_char(':')?;
                    v.fmt(f)?;
                }
                f.write_char('}')
            }
            J::Raw(s) => f.write_str(s),
        }
    }
}

// ---------------------------------------------------------------------------------------------
// sections under catch_unwind
// ---------------------------------------------------------------------------------------------

pub fn panic_message(p: Box<dyn std::any::Any + Send>) -> String {
    if let Some(s) = p.downcast_ref::<&str>() {
        s.to_string()
    } else if let Some(s) = p.downcast_ref::<String>() {
        s.clone()
    } else {
        "<non-string panic payload>".to_string()
    }
}

/// Runs `f`; `Err(message)` if it panicked.
pub fn catch<T>(f: impl FnOnce() -> T) -> Result<T, String> {
    catch_unwind(AssertUnwindSafe(f)).map_err(panic_message)
}

/// The observation object of one module, built section by section. A section that panics
/// yields `null` and an entry in `"probe_panic"`; the other sections are unaffected.
pub struct Obs {
    fields: Vec<(String, J)>,
    panics: Vec<String>,
}

impl Obs {
    /// `id_json` is the case id, already serialised.
    pub fn new(id_json: &str) -> Self {
        Obs {
            fields: vec![("id".to_owned(), J::Raw(id_json.to_owned()))],
            panics: Vec::new(),
        }
    }

    pub fn put(&mut self, name: &str, value: J) {
        self.fields.push((name.to_owned(), value));
    }

    pub fn section(&mut self, name: &str, f: impl FnOnce() -> J) {
        drain();
        match catch(f) {
            Ok(v) => self.fields.push((name.to_owned(), v)),
            Err(msg) => {
                self.fields.push((name.to_owned(), J::Null));
                self.panics.push(format!("{}: {}", name, msg));
            }
        }
        drain();
    }

    pub fn finish(mut self) -> String {
        if !self.panics.is_empty() {
            let msg = self.panics.join(" | ");
            self.fields.push(("probe_panic".to_owned(), J::Str(msg)));
        }
        J::Obj(self.fields).to_string()
    }
}

// ---------------------------------------------------------------------------------------------
// small helpers for generated probe code
// ---------------------------------------------------------------------------------------------

/// `probe_has_impl!(Type: Trait + Bounds)` - `true` iff the type implements the bounds; a missing
/// impl is an observation, not a compile error (inherent associated consts win over trait ones).
#[macro_export]
macro_rules! probe_has_impl {
    ($t:ty : $($bounds:tt)+) => {{
        #[allow(dead_code)]
        trait DoesNotImpl {
            const IMPLS: bool = false;
        }
        impl<T: ?Sized> DoesNotImpl for T {}
        #[allow(dead_code)]
        struct Wrapper<T: ?Sized>(::core::marker::PhantomData<T>);
        #[allow(dead_code)]
        impl<T: ?Sized + $($bounds)+> Wrapper<T> {
            const IMPLS: bool = true;
        }
        <Wrapper<$t>>::IMPLS
    }};
}

/// Issues 1, 2, 3, ... as scalar components (in evaluation order).
#[derive(Default)]
pub struct Counter {
    n: Cell<u64>,
}

macro_rules! counter_methods {
    ($($name:ident : $t:ty),*) => {
        $(pub fn $name(&self) -> $t {
            self.bump() as $t
        })*
    };
}

impl Counter {
    pub fn new() -> Self {
        Self::default()
    }
    fn bump(&self) -> u64 {
        let v = self.n.get() + 1;
        self.n.set(v);
        v
    }
    /// Number of components issued so far.
    pub fn count(&self) -> u64 {
        self.n.get()
    }
    counter_methods!(f32: f32, f64: f64, i8: i8, u8: u8, i16: i16, u16: u16, i32: i32, u32: u32, i64: i64, u64: u64);
    /// `[1, 2, ..., count]`
    pub fn components_json(&self) -> J {
        J::Arr((1..=self.n.get()).map(|v| J::UInt(v as u128)).collect())
    }
}

pub fn hex(bytes: &[u8]) -> String {
    let mut s = String::with_capacity(bytes.len() * 2);
    for b in bytes {
        let _ = write!(s, "{:02x}", b);
    }
    s
}

pub fn constants_json(constants: &HashMap<String, f64>) -> J {
    let mut v: Vec<(&String, &f64)> = constants.iter().collect();
    v.sort_by(|a, b| a.0.cmp(b.0));
    J::Obj(v.into_iter().map(|(k, v)| (k.clone(), J::F64(*v))).collect())
}

fn sorted_constants_json(constants: &[(String, f64)]) -> J {
    J::Obj(constants.iter().map(|(k, v)| (k.clone(), J::F64(*v))).collect())
}

pub fn vertex_attributes_json(attributes: &[VertexAttribute]) -> J {
    J::arr(attributes.iter().map(|a| {
        J::obj()
            .put("format", J::debug(&a.format))
            .put("offset", J::uint(a.offset))
            .put("shader_location", J::uint(a.shader_location))
            .done()
    }))
}

pub fn vertex_buffer_layout_json(layout: &VertexBufferLayout<'_>) -> J {
    J::obj()
        .put("array_stride", J::uint(layout.array_stride))
        .put("step_mode", J::debug(&layout.step_mode))
        .put("attributes", vertex_attributes_json(layout.attributes))
        .done()
}

pub fn layout_entries_json(entries: &[BindGroupLayoutEntry]) -> J {
    J::arr(entries.iter().map(|e| {
        J::obj()
            .put("binding", J::uint(e.binding))
            .put("visibility", J::uint(e.visibility.bits()))
            .put("ty", J::debug(&e.ty))
            .put("count", J::opt_uint(e.count.map(|c| c.get())))
            .done()
    }))
}

pub fn layout_json(desc: &LayoutDesc) -> J {
    J::obj()
        .put("label", J::opt_str(desc.label.as_deref()))
        .put("entries", layout_entries_json(&desc.entries))
        .done()
}

/// Raw dump of one event (used for `"unexpected_events"`).
pub fn event_json(e: &Event) -> J {
    let o = J::obj().put("event", J::str(e.kind()));
    match e {
        Event::CreateShaderModule { id, label, source } => o
            .put("id", J::uint(*id))
            .put("label", J::opt_str(label.as_deref()))
            .put("source", J::str(source)),
        Event::CreateBindGroupLayout { id, desc } => o.put("id", J::uint(*id)).put("desc", layout_json(desc)),
        Event::CreateBindGroup {
            id,
            label,
            layout_id,
            layout,
            entries,
        } => o
            .put("id", J::uint(*id))
            .put("label", J::opt_str(label.as_deref()))
            .put("layout_id", J::uint(*layout_id))
            .put("layout", layout_json(layout))
            .put(
                "entries",
                J::arr(entries.iter().map(|e| {
                    J::obj()
                        .put("binding", J::uint(e.binding))
                        .put("kind", J::str(e.kind))
                        .put("tag", J::uint(e.tag))
                        .put("offset", J::opt_uint(e.offset))
                        .put("size", J::opt_uint(e.size))
                        .done()
                })),
            ),
        Event::CreatePipelineLayout {
            id,
            label,
            layouts,
            push_constant_ranges,
        } => o
            .put("id", J::uint(*id))
            .put("label", J::opt_str(label.as_deref()))
            .put("bind_group_layouts", J::arr(layouts.iter().map(|(_, d)| layout_json(d))))
            .put("push_constant_ranges", push_constant_ranges_json(push_constant_ranges)),
        Event::CreateComputePipeline {
            id,
            label,
            layout_id,
            module_id,
            entry_point,
            constants,
            ..
        } => o
            .put("id", J::uint(*id))
            .put("label", J::opt_str(label.as_deref()))
            .put("layout_id", J::opt_uint(*layout_id))
            .put("module_id", J::uint(*module_id))
            .put("entry_point", J::opt_str(entry_point.as_deref()))
            .put("constants", sorted_constants_json(constants)),
        Event::CreateRenderPipeline {
            id,
            label,
            vertex_entry_point,
            fragment_entry_point,
            ..
        } => o
            .put("id", J::uint(*id))
            .put("label", J::opt_str(label.as_deref()))
            .put("vertex_entry_point", J::opt_str(vertex_entry_point.as_deref()))
            .put("fragment_entry_point", J::opt_str(fragment_entry_point.as_deref())),
        Event::SetBindGroup {
            pass,
            pass_id,
            index,
            bind_group_id,
            offsets,
        } => o
            .put("pass", J::str(pass))
            .put("pass_id", J::uint(*pass_id))
            .put("index", J::uint(*index))
            .put("bind_group_id", J::opt_uint(*bind_group_id))
            .put("offsets", J::arr(offsets.iter().map(|o| J::uint(*o)))),
    }
    .done()
}

pub fn events_json(events: &[Event]) -> J {
    J::arr(events.iter().map(event_json))
}

fn push_constant_ranges_json(ranges: &[PushConstantRange]) -> J {
    J::arr(ranges.iter().map(|r| {
        J::obj()
            .put("stages", J::uint(r.stages.bits()))
            .put("start", J::uint(r.range.start))
            .put("end", J::uint(r.range.end))
            .done()
    }))
}

/// Adds `"unexpected_events"` (raw dump of the whole drained log) unless the kinds of `events`
/// are exactly `expected`.
fn check_shape(mut o: JObj, events: &[Event], expected: &[&str]) -> JObj {
    let kinds: Vec<&str> = events.iter().map(Event::kind).collect();
    if kinds != expected {
        o.set("unexpected_events", events_json(events));
    }
    o
}

// ---------------------------------------------------------------------------------------------
// digests of the device log (shapes of BATCH_SPEC.md, `device_log`)
// ---------------------------------------------------------------------------------------------

/// After `create_shader_module(&device)`.
pub fn obs_create_shader_module(events: &[Event]) -> J {
    let mut o = J::obj();
    match events.iter().find_map(|e| match e {
        Event::CreateShaderModule { label, source, .. } => Some((label, source)),
        _ => None,
    }) {
        Some((label, source)) => {
            o.set("source", J::str(source));
            o.set("label", J::opt_str(label.as_deref()));
        }
        None => {
            o.set("source", J::Null);
            o.set("label", J::Null);
        }
    }
    check_shape(o, events, &["create_shader_module"]).done()
}

/// After `BindGroupN::get_bind_group_layout(&device)`.
pub fn obs_get_bind_group_layout(group: u32, events: &[Event]) -> J {
    let desc = events.iter().find_map(|e| match e {
        Event::CreateBindGroupLayout { desc, .. } => Some(layout_json(desc)),
        _ => None,
    });
    let o = J::obj()
        .put("group", J::uint(group))
        .put("get_bind_group_layout", desc.unwrap_or(J::Null));
    check_shape(o, events, &["create_bind_group_layout"]).done()
}

/// After `BindGroupN::from_bindings(&device, ..)`; `fields` maps tags to the field of
/// `BindGroupLayoutN` that was filled with the resource carrying that tag. Also returns the id of
/// the created bind group.
pub fn obs_from_bindings(group: u32, events: &[Event], fields: &[(u64, &str)]) -> (J, Option<u64>) {
    let mut created = None;
    let mut inner = J::Null;
    for e in events {
        if let Event::CreateBindGroup {
            id,
            label,
            layout_id,
            layout,
            entries,
        } = e
        {
            created = Some(*id);
            // the layout must be one created within the same call
            let layout_is_own = events
                .iter()
                .any(|e| matches!(e, Event::CreateBindGroupLayout { id, .. } if id == layout_id));
            inner = J::obj()
                .put("label", J::opt_str(label.as_deref()))
                .put("layout_desc_label", J::opt_str(layout.label.as_deref()))
                .put("layout_entries", layout_entries_json(&layout.entries))
                .put("layout_is_own", J::Bool(layout_is_own))
                .put(
                    "entries",
                    J::arr(entries.iter().map(|en| {
                        let field = fields.iter().find(|(t, _)| *t == en.tag).map(|(_, f)| *f);
                        J::obj()
                            .put("binding", J::uint(en.binding))
                            .put("kind", J::str(en.kind))
                            .put("tag", J::uint(en.tag))
                            .put("field", J::opt_str(field))
                            .put("offset", J::opt_uint(en.offset))
                            .put("size", J::opt_uint(en.size))
                            .done()
                    })),
                )
                .done();
        }
    }
    let o = J::obj().put("group", J::uint(group)).put("from_bindings", inner);
    (
        check_shape(o, events, &["create_bind_group_layout", "create_bind_group"]).done(),
        created,
    )
}

/// After one way of setting bind groups on one pass; `groups` maps bind group ids to the group
/// they were created for.
pub fn obs_set(how: &str, pass: &str, events: &[Event], groups: &[(u64, u32)]) -> J {
    let mut calls = Vec::new();
    let mut other = false;
    for e in events {
        match e {
            Event::SetBindGroup {
                pass: p,
                index,
                bind_group_id,
                offsets,
                ..
            } => {
                let group = bind_group_id.and_then(|id| groups.iter().find(|(i, _)| *i == id).map(|(_, g)| *g));
                let mut c = J::obj()
                    .put("index", J::uint(*index))
                    .put("bind_group_tag_group", J::opt_uint(group))
                    .put("offsets", J::arr(offsets.iter().map(|o| J::uint(*o))));
                if *p != pass {
                    c.set("pass", J::str(p));
                }
                calls.push(c.done());
            }
            _ => other = true,
        }
    }
    let mut o = J::obj()
        .put("how", J::str(how))
        .put("pass", J::str(pass))
        .put("calls", J::Arr(calls));
    if other {
        o.set("unexpected_events", events_json(events));
    }
    o.done()
}

/// After `create_pipeline_layout(&device)`.
pub fn obs_pipeline_layout(events: &[Event]) -> J {
    let mut o = J::obj();
    let mut n_groups = 0;
    match events.iter().find_map(|e| match e {
        Event::CreatePipelineLayout {
            label,
            layouts,
            push_constant_ranges,
            ..
        } => Some((label, layouts, push_constant_ranges)),
        _ => None,
    }) {
        Some((label, layouts, ranges)) => {
            n_groups = layouts.len();
            // every layout must have been created within the same call
            let own = layouts.iter().all(|(lid, _)| {
                events
                    .iter()
                    .any(|e| matches!(e, Event::CreateBindGroupLayout { id, .. } if id == lid))
            });
            o.set("label", J::opt_str(label.as_deref()));
            o.set("bind_group_layouts", J::arr(layouts.iter().map(|(_, d)| layout_json(d))));
            o.set("push_constant_ranges", push_constant_ranges_json(ranges));
            o.set("layouts_are_own", J::Bool(own));
        }
        None => {
            o.set("bind_group_layouts", J::Null);
            o.set("push_constant_ranges", J::Null);
        }
    }
    let mut expected = vec!["create_bind_group_layout"; n_groups];
    expected.push("create_pipeline_layout");
    check_shape(o, events, &expected).done()
}

/// After `compute::create_<e>_pipeline(&device)`; `own_source` is the module's `SOURCE`.
pub fn obs_compute_pipeline(events: &[Event], own_source: &str) -> J {
    let mut o = J::obj();
    let mut n_groups = 0;
    match events.iter().find_map(|e| match e {
        Event::CreateComputePipeline { .. } => Some(e),
        _ => None,
    }) {
        Some(Event::CreateComputePipeline {
            label,
            layout_id,
            module_id,
            module_source,
            entry_point,
            constants,
            zero_initialize_workgroup_memory,
            cache_id,
            ..
        }) => {
            let own_layout = events.iter().find_map(|e| match e {
                Event::CreatePipelineLayout { id, layouts, .. } if Some(*id) == *layout_id => Some(layouts),
                _ => None,
            });
            if let Some(l) = own_layout {
                n_groups = l.len();
            }
            let module_is_own = events
                .iter()
                .any(|e| matches!(e, Event::CreateShaderModule { id, .. } if id == module_id));
            o.set("label", J::opt_str(label.as_deref()));
            o.set("entry_point", J::opt_str(entry_point.as_deref()));
            o.set("layout_is_own", J::Bool(own_layout.is_some()));
            o.set(
                "module_source_is_own",
                J::Bool(module_is_own && module_source == own_source),
            );
            o.set("constants", sorted_constants_json(constants));
            o.set(
                "zero_initialize_workgroup_memory",
                J::Bool(*zero_initialize_workgroup_memory),
            );
            o.set("cache", J::opt_uint(*cache_id));
            o.set("n_bind_group_layouts", J::usize(n_groups));
        }
        _ => {
            o.set("label", J::Null);
        }
    }
    let mut expected = vec!["create_shader_module"];
    expected.extend(std::iter::repeat("create_bind_group_layout").take(n_groups));
    expected.push("create_pipeline_layout");
    expected.push("create_compute_pipeline");
    check_shape(o, events, &expected).done()
}
