#!/bin/bash
# tools/refactor_run.sh <diff file> <props...>  -- apply a behaviour-preserving change to /repo, run checks, undo; prints per-check outcome
D=$1; shift
cd /repo && git status --short | grep -q . && { echo "/repo not clean"; exit 2; }
git -C /repo apply $D || exit 2
cd /verif
RES=""
for p in "$@"; do
  out=$(./check $p 2>&1 | tail -40)
  v=$(echo "$out" | grep "^VIOLATION" | grep -vc "no-failing-input-found")
  nf=$(echo "$out" | grep -c "no-failing-input-found")
  RES="$RES $p:real=$v,nofail=$nf"
  echo "$out" | grep "^VIOLATION" | grep -v "no-failing-input-found" | head -2
done
git -C /repo checkout -- .
echo "REFACTOR $D ->$RES"
