#!/bin/bash
# tools/confirm9.sh <PROP> : confirm wave-10 seeds q and r of PROP in its own scratch worktree / target directory
P=$1
for V in s t; do
  [ -f /tmp/mut11_$P/out/$V.diff ] || { echo "$P$V: not delivered"; continue; }
  SEED_WT=/tmp/mut11_$P SEED_TARGET=/tmp/mut11_$P/target /verif/tools/seed_confirm.sh $P $V
done
