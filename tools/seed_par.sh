#!/bin/bash
# tools/seed_par.sh <seed dir name> [props...]  -- run the checks against a seeded change WITHOUT touching /repo:
# the change is applied in a scratch worktree (VERIF_SEED_WT, default /tmp/seedwt) and the checks are pointed at it
# through VERIF_REPO (lib/common.py). Results are recorded in the seed's meta.json like tools/seed_run.sh does.
cd "$(dirname "$0")/.."
S=$1; shift
D=$PWD/seeded/$S
WT=${VERIF_SEED_WT:-/tmp/seedwt}
P=$(python3 -c "import json;print(json.load(open('$D/meta.json'))['breaks_property'])")
PROPS=${@:-$P}
[ -d $WT ] || git -C /repo worktree add -q --detach $WT HEAD
git -C $WT checkout -q -- . ; git -C $WT clean -fdq -e target
git -C $WT apply $D/patch.diff || { echo "SEED $S patch does not apply"; exit 2; }
RES=""
for p in $PROPS; do
  out=$(VERIF_REPO=$WT VERIF_TARGET=$PWD/.cache/target-$(basename $WT) ./check $p 2>&1 | tail -60)
  v=$(echo "$out" | grep -c "^VIOLATION")
  nf=$(echo "$out" | grep -c "no-failing-input-found")
  RES="$RES $p:violations=$v,nofail=$nf"
  echo "$out" | grep "^VIOLATION" | head -2
done
git -C $WT checkout -q -- .
echo "SEED $S ->$RES"
python3 - <<PY
import json
m=json.load(open("$D/meta.json"))
m.setdefault("check_results",{})
for item in "$RES".split():
    p,r=item.split(":")
    m["check_results"][p]=r
json.dump(m,open("$D/meta.json","w"),indent=1)
PY
