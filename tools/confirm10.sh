#!/bin/bash
# tools/confirm9.sh <PROP> : confirm wave-10 seeds q and r of PROP in its own scratch worktree / target directory
P=$1
for V in q r; do
  [ -f /tmp/mut10_$P/out/$V.diff ] || { echo "$P$V: not delivered"; continue; }
  SEED_WT=/tmp/mut10_$P SEED_TARGET=/tmp/mut10_$P/target /verif/tools/seed_confirm.sh $P $V
done
