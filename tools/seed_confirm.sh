#!/bin/bash
# tools/seed_confirm.sh <PROP> <a|b>  -- confirm a seeded change in its scratch worktree /tmp/mut_<PROP>, then store it
set -u
P=$1; V=$2; W=${SEED_WT:-/tmp/mut_$P}; O=$W/out
cd $W || exit 2
git checkout -q -- . ; rm -f wgsl_to_wgpu/tests/demo_*.rs
mkdir -p wgsl_to_wgpu/tests
cp $O/demo_$V.rs wgsl_to_wgpu/tests/demo_$V.rs
export CARGO_NET_OFFLINE=true CARGO_TARGET_DIR=${SEED_TARGET:-/tmp/mut_target}
# 1. demo passes without the change
cargo test -p wgsl_to_wgpu --offline --test demo_$V >/tmp/seed_$P$V.base.log 2>&1; BASE=$?
# 2. with the change: existing tests pass, demo fails
git apply $O/$V.diff || { echo "patch does not apply"; exit 2; }
cargo test -p wgsl_to_wgpu --offline --lib --test '*' -- --skip demo >/tmp/seed_$P$V.exist.log 2>&1
cargo test -p wgsl_to_wgpu --offline --lib >/tmp/seed_$P$V.lib.log 2>&1; LIB=$?
cargo test -p wgsl_to_wgpu --offline --test demo_$V >/tmp/seed_$P$V.demo.log 2>&1; DEMO=$?
git checkout -q -- . ; rm -f wgsl_to_wgpu/tests/demo_*.rs
echo "$P$V: demo_without=$BASE (want 0) existing_with=$LIB (want 0) demo_with=$DEMO (want !=0)"
if [ $BASE -eq 0 ] && [ $LIB -eq 0 ] && [ $DEMO -ne 0 ]; then
  D=/verif/seeded/${P}_$V; mkdir -p $D
  cp $O/$V.diff $D/patch.diff; cp $O/demo_$V.rs $D/demo.rs
  python3 - <<PY
import json
m=json.load(open("$O/meta_$V.json"))
m["confirmed_by_me"]={"demo_passes_without_change":True,"existing_lib_tests_pass_with_change":True,"demo_fails_with_change":True,
  "commands":["cargo test -p wgsl_to_wgpu --offline --test demo_$V (unchanged tree)","git apply patch.diff","cargo test -p wgsl_to_wgpu --offline --lib","cargo test -p wgsl_to_wgpu --offline --test demo_$V"]}
m["breaks_property"]="$P"
json.dump(m,open("$D/meta.json","w"),indent=1)
PY
  echo "stored $D"
else
  echo "NOT CONFIRMED"; tail -5 /tmp/seed_$P$V.lib.log; tail -5 /tmp/seed_$P$V.demo.log
fi
