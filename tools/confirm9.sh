#!/bin/bash
# tools/confirm9.sh <PROP> : confirm wave-9 seeds o and p of PROP in its own scratch worktree / target directory
P=$1
for V in o p; do
  [ -f /tmp/mut9_$P/out/$V.diff ] || { echo "$P$V: not delivered"; continue; }
  SEED_WT=/tmp/mut9_$P SEED_TARGET=/tmp/mut9_$P/target /verif/tools/seed_confirm.sh $P $V
done
