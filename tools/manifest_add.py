#!/usr/bin/env python3
"""tools/manifest_add.py ID 'technique' 'level text' 'level note' [category] -- adds / replaces a check entry."""
import json, sys
pid, technique, text, note = sys.argv[1:5]
cat = sys.argv[5] if len(sys.argv) > 5 else "proof"
m = json.load(open('/verif/MANIFEST.json'))
c = {
 "property_id": pid,
 "quick_cmd": "./check %s --tier quick" % pid,
 "thorough_cmd": "./check %s --tier thorough" % pid,
 "evidence_file": "evidence/%s.json" % pid,
 "replay_cmd_template": "./check %s --replay {path}" % pid,
 "engine": "coq-model",
 "technique": technique,
 "level_claimed": {"category": cat, "text": text, "design_ref": "DESIGN.md §5 %s" % pid},
 "level_note": note,
}
m['checks'] = [x for x in m['checks'] if x['property_id'] != pid] + [c]
m['checks'].sort(key=lambda x: x['property_id'])
for e in m['engines']:
    e['serves_properties'] = sorted(set(e['serves_properties']) | {pid})
json.dump(m, open('/verif/MANIFEST.json', 'w'), indent=1)
