#!/bin/bash
# tools/refactor_par.sh <diff file> <props...>  -- like refactor_run.sh but in a scratch worktree via VERIF_REPO (never touches /repo)
cd "$(dirname "$0")/.."
D=$(realpath $1); shift
WT=${VERIF_SEED_WT:-/tmp/seedwt}
[ -d $WT ] || git -C /repo worktree add -q --detach $WT HEAD
git -C $WT checkout -q -- . ; git -C $WT clean -fdq -e target
git -C $WT apply $D || { echo "REFACTOR $D does not apply"; exit 2; }
RES=""
for p in "$@"; do
  out=$(VERIF_REPO=$WT VERIF_TARGET=$PWD/.cache/target-$(basename $WT) ./check $p 2>&1 | tail -40)
  v=$(echo "$out" | grep "^VIOLATION" | grep -vc "no-failing-input-found")
  nf=$(echo "$out" | grep -c "no-failing-input-found")
  RES="$RES $p:real=$v,nofail=$nf"
  echo "$out" | grep "^VIOLATION" | grep -v "no-failing-input-found" | head -2
done
git -C $WT checkout -q -- .
echo "REFACTOR $(basename $D) ->$RES"
