#!/usr/bin/env python3
"""tools/pin_statements.py - (re)write coq/pins.json: the statement of every property theorem as printed by `Check`.
Run after deliberately changing / adding a theorem; ./check compares against it on every run."""
import importlib
import json
import os
import sys

sys.path.insert(0, "/verif/lib")
sys.path.insert(0, "/verif/props")
import common  # noqa: E402

pins = {}
for i in range(1, 21):
    prop = importlib.import_module("c%02d" % i)
    pa, out = common.print_assumptions(prop.THEOREMS, prop.THEOREM_REQUIRES)
    if pa is None:
        print(out[-2000:])
        sys.exit(1)
    for t in prop.THEOREMS:
        pins[t] = common.STATEMENTS[t]
json.dump(pins, open(common.PINS, "w"), indent=1, sort_keys=True)
print("pinned %d statements" % len(pins))
