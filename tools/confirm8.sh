#!/bin/bash
# tools/confirm8.sh <PROP> : confirm wave-8 seeds m and n of PROP sequentially (one cargo target dir -> serialised by flock)
P=$1
exec 9>/tmp/confirm8.lock
flock 9
for V in m n; do SEED_WT=/tmp/mut8_$P /verif/tools/seed_confirm.sh $P $V; done
