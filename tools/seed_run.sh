#!/bin/bash
# tools/seed_run.sh <seed dir name> [props...]  -- apply a seeded change to /repo, run checks, undo
S=$1; shift
D=/verif/seeded/$S
P=$(python3 -c "import json;print(json.load(open('$D/meta.json'))['breaks_property'])")
PROPS=${@:-$P}
cd /repo && git status --short | grep -q . && { echo "/repo not clean"; exit 2; }
git -C /repo apply $D/patch.diff || exit 2
cd /verif
RES=""
for p in $PROPS; do
  out=$(./check $p 2>&1 | tail -40)
  v=$(echo "$out" | grep -c "^VIOLATION")
  nf=$(echo "$out" | grep -c "no-failing-input-found")
  RES="$RES $p:violations=$v,nofail=$nf"
  echo "$out" | grep "^VIOLATION" | head -2
done
git -C /repo checkout -- .
echo "SEED $S ->$RES"
python3 - <<PY
import json
m=json.load(open("$D/meta.json"))
m.setdefault("check_results",{})
for item in "$RES".split():
    p,r=item.split(":")
    m["check_results"][p]=r
json.dump(m,open("$D/meta.json","w"),indent=1)
PY
