#!/bin/bash
# tools/seed_wave.sh <seed dir names...>  -- run from any checkout of /verif (e.g. a `vp run` snapshot): builds the
# framework there if needed, then for each seed applies it to /repo, runs the check of the property it breaks and undoes it.
cd "$(dirname "$0")/.."
V=$PWD
[ -x .cache/target/release/driver ] || ./setup.sh >/dev/null 2>&1
for S in "$@"; do
  D=$V/seeded/$S
  P=$(python3 -c "import json;print(json.load(open('$D/meta.json'))['breaks_property'])")
  git -C /repo status --short | grep -q . && { echo "/repo not clean"; exit 2; }
  git -C /repo apply $D/patch.diff || { echo "SEED $S patch does not apply"; continue; }
  out=$(./check $P 2>&1 | tail -60)
  git -C /repo checkout -- .
  v=$(echo "$out" | grep -c "^VIOLATION")
  nf=$(echo "$out" | grep -c "no-failing-input-found")
  echo "$out" | grep "^VIOLATION" | head -2
  echo "SEED $S -> $P:violations=$v,nofail=$nf"
done
